package c13

import (
	"fmt"
	"strings"
)

// The "call-tree interpreter" package: one templ file whose templates loop and
// switch over tree data (type T) into STATIC call constructs, plus hand-written
// intermediates and a JSONL driver.
//
// A generated templ component reads and clears the children slot on entry, so a
// dispatcher template between a block and the calls inside it would hide every
// leak.  The dispatcher is therefore expanded INLINE for three levels: level 0
// is the body of `nodes`, the block of every level-0 call whose callee can
// render its block contains the complete level-1 switch, and level-1 blocks
// contain a level-2 switch over all calls without a block.  Siblings are always
// consecutive iterations of one loop in one body, a call inside a block sits
// directly in that block's closure.  Deeper nesting recurses through `nodes`.

// kinds with "+" are called with a block, with "-" without.
var genCallees = []string{"slot", "ign", "twice", "pass", "inner", "after"}

// allKinds lists every node kind of the interpreter.
var allKinds = []string{
	"slot-", "slot+", "ign-", "ign+", "twice-", "twice+", "pass-", "pass+", "inner-", "inner+", "after-", "after+",
	"legacy-",
	"once-", "once+", "oncec-", "oncec+", "flush-", "flush+", "join-", "join+",
	"fnget-", "fnget+", "fnign-", "fnign+", "fnwith+",
	"fncap-", "fncap+", "fncap2-", "fncap2+", "fndrop-", "fndrop+", "capslot-", "capslot+", "capchain-", "capchain+",
	"fwdslot-", "fwdslot+", "fwdinner-", "fwdinner+", "fwdafter-", "fwdafter+", "fwdtwice-", "fwdtwice+", "fwdign-", "fwdign+", "fwdpass-", "fwdpass+",
	"fwdsame-", "fwdsame+", "fwdnop-", "fwdnop+", "fwd2-", "fwd2+",
	"fwdnilslot-", "fwdnilslot+", "fwdnilafter-", "fwdnilafter+", "fwdniltwice-", "fwdniltwice+", "fwdnil2-", "fwdnil2+",
}

// Source shapes of a call site inside a GENERATED wrapper template (the
// generator or parser may special-case them): the wrapper w<shape><callee>(m)
// renders <div k=w<shape><callee> m> @callee(m.i) { SHAPE } </div>.
type srcShape struct {
	name    string
	block   string // text of the block; "" = call without a block
	after   string // text on the line after the call
	callees []string
}

var srcShapes = []srcShape{
	{"ws", "\n", "", []string{"slot", "twice", "ign"}},                                     // whitespace-only block
	{"gc", "// nothing yet\n", "", []string{"slot", "twice", "ign"}},                       // Go line comment only
	{"gb", "/* nothing yet */\n", "", []string{"slot", "twice", "ign"}},                    // Go block comment only
	{"hc", "<!-- c -->\n", "", []string{"slot", "twice", "ign"}},                           // HTML comment only
	{"ch", "{ children... }\n", "", []string{"slot", "twice", "ign"}},                      // exactly the wrapper's children
	{"ch2", "{ children... }\n{ children... }\n", "", []string{"slot", "twice", "ign"}},    // twice
	{"cht", "{ children... }\ntx\n", "", []string{"slot", "twice", "ign"}},                 // plus text
	{"chif", "if m != \"\" {\n{ children... }\n}\n", "", []string{"slot", "twice", "ign"}}, // inside an if
	{"nl", "", "{ children... }\n", []string{"slot", "twice"}},                             // block-less call, children on the next line
	{"nlt", "", "{ \"tx\" }\n", []string{"slot", "twice"}},                                 // block-less call, expression on the next line
}

// wrapperBases: kind base (without +/-) -> shape, callee.
var wrapperBases = map[string][2]string{}

func init() {
	for _, sh := range srcShapes {
		for _, c := range sh.callees {
			base := "w" + sh.name + c
			wrapperBases[base] = [2]string{sh.name, c}
			allKinds = append(allKinds, base+"-", base+"+")
		}
	}
}

func wrapperTemplates() string {
	var sb strings.Builder
	for _, sh := range srcShapes {
		for _, c := range sh.callees {
			base := "w" + sh.name + c
			fmt.Fprintf(&sb, "templ %s(m string) {\n\t<div k=%q m={ m }>\n", base, base)
			if sh.block != "" {
				fmt.Fprintf(&sb, "\t\t@%s(m + \".i\") {\n%s\t\t}\n", c, sh.block)
			} else {
				fmt.Fprintf(&sb, "\t\t@%s(m + \".i\")\n%s", c, sh.after)
			}
			sb.WriteString("\t</div>\n}\n\n")
		}
	}
	return sb.String()
}

// fwdKinds: forwarding wrappers (hand-written function components that read
// their children and hand them on to a generated callee with
// templ.WithChildren WITHOUT clearing ctx first).
var fwdKinds = []string{"fwdslot", "fwdinner", "fwdafter", "fwdtwice", "fwdign", "fwdpass", "fwdsame", "fwdnop", "fwd2"}

// level2Kinds: the block-less calls expanded inline two blocks deep (all
// others go through the nodes dispatcher there).
var level2Kinds = map[string]bool{
	"slot-": true, "twice-": true, "inner-": true, "after-": true, "once-": true, "flush-": true, "fnget-": true,
	"fncap-": true, "fwdinner-": true, "fwdsame-": true,
}

// rendersBlock: callees that render the block they are given (so what is
// inside the block matters and is expanded inline).
var rendersBlock = map[string]bool{"slot+": true, "twice+": true, "pass+": true, "after+": true, "once+": true, "flush+": true, "fnget+": true}

// capturesBlock: callees that evaluate their block into a writer of their
// own; expanded inline at level 0 only (keeps the package small).
var capturesBlock = map[string]bool{"fncap+": true, "fncap2+": true, "fndrop+": true, "capslot+": true, "capchain+": true,
	"fwdslot+": true, "fwdafter+": true, "fwdtwice+": true, "fwdpass+": true, "fwdsame+": true, "fwd2+": true}

func callExpr(kind, v string) string {
	base := kind[:len(kind)-1]
	if _, ok := wrapperBases[base]; ok {
		return fmt.Sprintf("%s(%s.M)", base, v)
	}
	switch base {
	case "slot", "ign", "twice", "pass", "inner", "after", "fnget", "fnign", "fncap", "fncap2", "fndrop", "capslot", "capchain",
		"fwdslot", "fwdinner", "fwdafter", "fwdtwice", "fwdign", "fwdpass", "fwdsame", "fwdnop", "fwd2",
		"fwdnilslot", "fwdnilafter", "fwdniltwice", "fwdnil2":
		return fmt.Sprintf("%s(%s.M)", base, v)
	case "once":
		return fmt.Sprintf("oh(%s.H).Once()", v)
	case "oncec":
		return fmt.Sprintf("ohc(%s.H).Once()", v)
	case "flush":
		return "templ.Flush()"
	case "join":
		return fmt.Sprintf("templ.Join(comps(%s.Args)...)", v)
	}
	panic(kind)
}

// leafLevel is the inline level that only holds calls without a block.
var leafLevel = 2
var maxLevel = 2

func body(level int, list, ind string, expand bool) string {
	v := fmt.Sprintf("t%d", level)
	var sb strings.Builder
	fmt.Fprintf(&sb, "%sfor _, %s := range %s {\n", ind, v, list)
	fmt.Fprintf(&sb, "%s\tswitch %s.K {\n", ind, v)
	for _, k := range allKinds {
		plus := strings.HasSuffix(k, "+")
		if level == leafLevel && (plus || !level2Kinds[k]) {
			continue
		}
		if _, isWrapper := wrapperBases[k[:len(k)-1]]; isWrapper && level > 0 {
			continue // generated templates: through the dispatcher inside blocks
		}
		fmt.Fprintf(&sb, "%s\tcase %q:\n", ind, k)
		in := ind + "\t\t"
		switch {
		case k == "legacy-":
			fmt.Fprintf(&sb, "%s{! slot(%s.M) }\n", in, v)
		case k == "fnwith+":
			fmt.Fprintf(&sb, "%s@fnwith(%s)\n", in, v)
		case !plus:
			fmt.Fprintf(&sb, "%s@%s\n", in, callExpr(k, v))
		default:
			fmt.Fprintf(&sb, "%s@%s {\n", in, callExpr(k, v))
			fmt.Fprintf(&sb, "%s\t<div k=\"b\" m={ %s.M }>\n", in, v)
			switch {
			case expand && rendersBlock[k] && level < leafLevel && level+1 <= maxLevel:
				sb.WriteString(body(level+1, v+".Kids", in+"\t\t", true))
			case expand && capturesBlock[k] && level == 0: // one level only
				sb.WriteString(body(level+1, v+".Kids", in+"\t\t", false))
			default:
				fmt.Fprintf(&sb, "%s\t\t@nodes(%s.Kids)\n", in, v)
			}
			fmt.Fprintf(&sb, "%s\t</div>\n", in)
			fmt.Fprintf(&sb, "%s}\n", in)
		}
	}
	fmt.Fprintf(&sb, "%s\tdefault:\n", ind)
	if level == 0 {
		fmt.Fprintf(&sb, "%s\t\t<div k=\"BADKIND\" m={ %s.K }></div>\n", ind, v)
	} else {
		fmt.Fprintf(&sb, "%s\t\t@nodes([]T{ %s })\n", ind, v)
	}
	fmt.Fprintf(&sb, "%s\t}\n%s}\n", ind, ind)
	return sb.String()
}

func templSrc() string {
	return `package main

// generated callees
templ slot(m string) {
	<div k="slot" m={ m }>{ children... }</div>
}

templ ign(m string) {
	<div k="ign" m={ m }></div>
}

templ twice(m string) {
	<div k="twice" m={ m }>{ children... }{ children... }</div>
}

templ pass(m string) {
	<div k="pass" m={ m }>
		@slot(m + ".i") {
			{ children... }
		}
	</div>
}

templ inner(m string) {
	<div k="inner" m={ m }>
		@slot(m + ".i")
	</div>
}

templ after(m string) {
	<div k="after" m={ m }>
		{ children... }
		@slot(m + ".i")
	</div>
}

// generated capture layer: a capturing function component around a slot
// callee that is handed this template's children.
templ capchain(m string) {
	@fncap(m) {
		@slot(m + ".i") {
			{ children... }
		}
	}
}

` + wrapperTemplates() + `templ nodes(ts []T) {
` + body(0, "ts", "\t", true) + `}
`
}

const helperSrc = `package main

import (
	"bufio"
	"bytes"
	"context"
	"encoding/base64"
	"encoding/json"
	"fmt"
	"io"
	"os"
	"runtime/debug"

	"github.com/a-h/templ"
)

// T is one node of a call tree (data interpreted by the nodes template).
type T struct {
	K    string ` + "`json:\"k\"`" + `
	M    string ` + "`json:\"m\"`" + `
	H    int    ` + "`json:\"h,omitempty\"`" + `
	Kids []T    ` + "`json:\"kids,omitempty\"`" + `
	Args []T    ` + "`json:\"args,omitempty\"`" + `
}

var (
	onceHandles  = []*templ.OnceHandle{templ.NewOnceHandle(), templ.NewOnceHandle()}
	onceCHandles = []*templ.OnceHandle{
		templ.NewOnceHandle(templ.WithComponent(slot("oc0"))),
		templ.NewOnceHandle(templ.WithComponent(slot("oc1"))),
	}
)

func oh(i int) *templ.OnceHandle  { return onceHandles[i%2] }
func ohc(i int) *templ.OnceHandle { return onceCHandles[i%2] }

// fnget: hand-written component rendering its children, following the
// documented protocol for code components (GetChildren, then ClearChildren).
func fnget(m string) templ.Component {
	return templ.ComponentFunc(func(ctx context.Context, w io.Writer) error {
		if err := enter(); err != nil {
			return err
		}
		children := templ.GetChildren(ctx)
		ctx = templ.ClearChildren(ctx)
		if _, err := fmt.Fprintf(w, "<div k=\"fget\" m=\"%s\">", m); err != nil {
			return err
		}
		if err := children.Render(ctx, w); err != nil {
			return err
		}
		_, err := io.WriteString(w, "</div>")
		return err
	})
}

// fnign: hand-written leaf component that does not look at children at all.
func fnign(m string) templ.Component {
	return templ.ComponentFunc(func(ctx context.Context, w io.Writer) error {
		if err := enter(); err != nil {
			return err
		}
		_, err := fmt.Fprintf(w, "<div k=\"fign\" m=\"%s\"></div>", m)
		return err
	})
}

// budget: bytes the current job may still write to its output and to capture
// buffers together (see limitWriter).
var budget int

// calls: how many hand-written components the current job may still render.
// A runaway recursion through capture buffers writes nothing to the job's
// output (every level buffers in a fresh writer), so the byte budget alone
// would not stop it.
var calls int

func enter() error {
	if calls--; calls < 0 {
		return errLimit
	}
	return nil
}

// capBuf is the private writer of a capturing component.
type capBuf struct{ bytes.Buffer }

func (c *capBuf) Write(p []byte) (int, error) {
	if budget -= len(p); budget < 0 {
		return 0, errLimit
	}
	return c.Buffer.Write(p)
}

// capture: hand-written component that renders its children into a buffer of
// its own (documented protocol: GetChildren, ClearChildren) and then writes
// what it captured, wrapped in its marker, times times.
func capture(kind, m string, times int) templ.Component {
	return templ.ComponentFunc(func(ctx context.Context, w io.Writer) error {
		if err := enter(); err != nil {
			return err
		}
		children := templ.GetChildren(ctx)
		ctx = templ.ClearChildren(ctx)
		var b capBuf
		if err := children.Render(ctx, &b); err != nil {
			return err
		}
		if _, err := fmt.Fprintf(w, "<div k=\"%s\" m=\"%s\">", kind, m); err != nil {
			return err
		}
		for i := 0; i < times; i++ {
			if _, err := w.Write(b.Bytes()); err != nil {
				return err
			}
		}
		_, err := io.WriteString(w, "</div>")
		return err
	})
}

func fncap(m string) templ.Component  { return capture("cap", m, 1) }
func fncap2(m string) templ.Component { return capture("cap2", m, 2) }
func fndrop(m string) templ.Component { return capture("drop", m, 0) }

// capslot: hand-written capture layer around a generated slot callee that is
// given this component's children.
func capslot(m string) templ.Component {
	return templ.ComponentFunc(func(ctx context.Context, w io.Writer) error {
		if err := enter(); err != nil {
			return err
		}
		children := templ.GetChildren(ctx)
		ctx = templ.ClearChildren(ctx)
		var b capBuf
		if err := slot(m+".i").Render(templ.WithChildren(ctx, children), &b); err != nil {
			return err
		}
		if _, err := fmt.Fprintf(w, "<div k=\"capslot\" m=\"%s\">", m); err != nil {
			return err
		}
		if _, err := w.Write(b.Bytes()); err != nil {
			return err
		}
		_, err := io.WriteString(w, "</div>")
		return err
	})
}

// wrap renders c inside a marker element, with whatever ctx it is rendered with.
func wrap(kind, m string, c templ.Component) templ.Component {
	return templ.ComponentFunc(func(ctx context.Context, w io.Writer) error {
		if err := enter(); err != nil {
			return err
		}
		if _, err := fmt.Fprintf(w, "<div k=\"%s\" m=\"%s\">", kind, m); err != nil {
			return err
		}
		if err := c.Render(ctx, w); err != nil {
			return err
		}
		_, err := io.WriteString(w, "</div>")
		return err
	})
}

// fwd: forwarding wrapper. Reads its children, wraps them in a marker and
// forwards them to a generated callee with templ.WithChildren, without
// clearing ctx first (WithChildren overrides whatever ctx carried).
func fwd(m string, inner func(string) templ.Component) templ.Component {
	return templ.ComponentFunc(func(ctx context.Context, w io.Writer) error {
		if err := enter(); err != nil {
			return err
		}
		children := templ.GetChildren(ctx)
		return inner(m+".f").Render(templ.WithChildren(ctx, wrap("w", m, children)), w)
	})
}

func fwdslot(m string) templ.Component  { return fwd(m, slot) }
func fwdinner(m string) templ.Component { return fwd(m, inner) }
func fwdafter(m string) templ.Component { return fwd(m, after) }
func fwdtwice(m string) templ.Component { return fwd(m, twice) }
func fwdign(m string) templ.Component   { return fwd(m, ign) }
func fwdpass(m string) templ.Component  { return fwd(m, pass) }

// fwdsame forwards the very same children, unwrapped.
func fwdsame(m string) templ.Component {
	return templ.ComponentFunc(func(ctx context.Context, w io.Writer) error {
		if err := enter(); err != nil {
			return err
		}
		return after(m+".f").Render(templ.WithChildren(ctx, templ.GetChildren(ctx)), w)
	})
}

// fwdnop forwards templ.NopComponent (its own children are dropped).
func fwdnop(m string) templ.Component {
	return templ.ComponentFunc(func(ctx context.Context, w io.Writer) error {
		if err := enter(); err != nil {
			return err
		}
		return after(m+".f").Render(templ.WithChildren(ctx, templ.NopComponent), w)
	})
}

// fwd2: a chain of two forwarders.
func fwd2(m string) templ.Component {
	return templ.ComponentFunc(func(ctx context.Context, w io.Writer) error {
		if err := enter(); err != nil {
			return err
		}
		children := templ.GetChildren(ctx)
		return fwdafter(m+".g").Render(templ.WithChildren(ctx, wrap("w1", m, children)), w)
	})
}

// fwdnil: hand-written layer that tells a generated callee "you get no
// block" with templ.WithChildren(ctx, nil), without clearing ctx first
// (generated callees treat a nil children component as empty).
func fwdnil(m string, inner func(string) templ.Component) templ.Component {
	return templ.ComponentFunc(func(ctx context.Context, w io.Writer) error {
		if err := enter(); err != nil {
			return err
		}
		return inner(m+".f").Render(templ.WithChildren(ctx, nil), w)
	})
}

func fwdnilslot(m string) templ.Component  { return fwdnil(m, slot) }
func fwdnilafter(m string) templ.Component { return fwdnil(m, after) }
func fwdniltwice(m string) templ.Component { return fwdnil(m, twice) }

// fwdnil2: a forwarder that hands its wrapped children to a fwdnil layer.
func fwdnil2(m string) templ.Component {
	return templ.ComponentFunc(func(ctx context.Context, w io.Writer) error {
		if err := enter(); err != nil {
			return err
		}
		children := templ.GetChildren(ctx)
		return fwdnilslot(m+".g").Render(templ.WithChildren(ctx, wrap("w1", m, children)), w)
	})
}

var fwdFuncs = map[string]func(string) templ.Component{
	"fwdnilslot-": fwdnilslot, "fwdnilafter-": fwdnilafter, "fwdniltwice-": fwdniltwice, "fwdnil2-": fwdnil2,
	"fwdslot-": fwdslot, "fwdinner-": fwdinner, "fwdafter-": fwdafter, "fwdtwice-": fwdtwice, "fwdign-": fwdign,
	"fwdpass-": fwdpass, "fwdsame-": fwdsame, "fwdnop-": fwdnop, "fwd2-": fwd2,
}

// fnwith: hand-written component that passes children to a generated callee
// from Go code with templ.WithChildren (documented usage).
func fnwith(t T) templ.Component {
	return templ.ComponentFunc(func(ctx context.Context, w io.Writer) error {
		if err := enter(); err != nil {
			return err
		}
		blk := templ.ComponentFunc(func(ctx context.Context, w io.Writer) error {
			if _, err := fmt.Fprintf(w, "<div k=\"b\" m=\"%s\">", t.M); err != nil {
				return err
			}
			if err := nodes(t.Kids).Render(ctx, w); err != nil {
				return err
			}
			_, err := io.WriteString(w, "</div>")
			return err
		})
		if _, err := fmt.Fprintf(w, "<div k=\"fwith\" m=\"%s\">", t.M); err != nil {
			return err
		}
		if err := slot(t.M+".i").Render(templ.WithChildren(ctx, blk), w); err != nil {
			return err
		}
		_, err := io.WriteString(w, "</div>")
		return err
	})
}

// comps turns the argument nodes of a templ.Join into components. Calls
// without a block become the callee itself (no dispatcher template between
// Join and the callee).
func comps(as []T) []templ.Component {
	var out []templ.Component
	for _, a := range as {
		switch a.K {
		case "slot-":
			out = append(out, slot(a.M))
		case "ign-":
			out = append(out, ign(a.M))
		case "twice-":
			out = append(out, twice(a.M))
		case "pass-":
			out = append(out, pass(a.M))
		case "inner-":
			out = append(out, inner(a.M))
		case "after-":
			out = append(out, after(a.M))
		case "fnget-":
			out = append(out, fnget(a.M))
		case "fnign-":
			out = append(out, fnign(a.M))
		case "fncap-":
			out = append(out, fncap(a.M))
		case "fncap2-":
			out = append(out, fncap2(a.M))
		case "fndrop-":
			out = append(out, fndrop(a.M))
		case "capslot-":
			out = append(out, capslot(a.M))
		case "capchain-":
			out = append(out, capchain(a.M))
		case "once-":
			out = append(out, oh(a.H).Once())
		case "oncec-":
			out = append(out, ohc(a.H).Once())
		case "flush-":
			out = append(out, templ.Flush())
		default:
			if f, ok := fwdFuncs[a.K]; ok {
				out = append(out, f(a.M))
			} else {
				out = append(out, nodes([]T{a}))
			}
		}
	}
	return out
}

// limitWriter makes runaway recursion (a block that ends up rendering
// itself) fail-stop with a write error instead of a fatal stack overflow.
type limitWriter struct {
	buf bytes.Buffer
}

var errLimit = fmt.Errorf("output limit exceeded (runaway recursion)")

func (l *limitWriter) Write(p []byte) (int, error) {
	if budget -= len(p); budget < 0 {
		return 0, errLimit
	}
	return l.buf.Write(p)
}

type job struct {
	ID    int ` + "`json:\"id\"`" + `
	Limit int ` + "`json:\"limit\"`" + ` // bytes the job may write to output and capture buffers together
	Tree  []T ` + "`json:\"tree\"`" + `
}

type result struct {
	ID  int    ` + "`json:\"id\"`" + `
	Out string ` + "`json:\"out\"`" + `
	Err string ` + "`json:\"err,omitempty\"`" + `
}

func main() {
	debug.SetMaxStack(512 << 20)
	in := bufio.NewReaderSize(os.Stdin, 1<<20)
	out := bufio.NewWriterSize(os.Stdout, 1<<20)
	defer out.Flush()
	dec := json.NewDecoder(in)
	enc := json.NewEncoder(out)
	for {
		var j job
		if err := dec.Decode(&j); err != nil {
			if err == io.EOF {
				return
			}
			fmt.Fprintln(os.Stderr, "bad job:", err)
			os.Exit(3)
		}
		var lw limitWriter
		budget, calls = j.Limit, j.Limit
		buf := &lw.buf
		r := result{ID: j.ID}
		func() {
			defer func() {
				if p := recover(); p != nil {
					r.Err = fmt.Sprintf("panic: %v", p)
				}
			}()
			if err := nodes(j.Tree).Render(context.Background(), &lw); err != nil {
				r.Err = "error: " + err.Error()
			}
		}()
		r.Out = base64.StdEncoding.EncodeToString(buf.Bytes())
		_ = enc.Encode(r)
		if j.ID%64 == 0 {
			out.Flush()
		}
	}
}
`
