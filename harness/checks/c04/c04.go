// Package c04 monitors property C04: the URL sanitiser admits only relative
// references and allow-listed schemes; dynamic href/action can only be filled
// through templ.SafeURL and the value is attribute-escaped on output.
package c04

import (
	"bufio"
	"bytes"
	"encoding/base64"
	"encoding/json"
	"fmt"
	"runtime"
	"sort"
	"strings"
	"sync"
	"sync/atomic"
	"time"

	"github.com/a-h/templ"
	"verif/core"
	"verif/corpus"
	"verif/oracle/html5"
	"verif/oracle/whaturl"
)

// Children: no child processes are needed (templ.URL cannot die fatally).
var Children map[string]func([]string) int

// allowed is the allow-list of the property statement.
var allowed = map[string]bool{"http": true, "https": true, "mailto": true, "tel": true, "ftp": true, "ftps": true}

const failed = string(templ.FailedSanitizationURL)

// Case is the replayable unit.
type Case struct {
	Kind  string `json:"kind"`            // "url" | "e2e" | "typing"
	S     string `json:"s,omitempty"`     // input string (base64, arbitrary bytes)
	Sink  string `json:"sink,omitempty"`  // e2e: component name
	Probe *Probe `json:"probe,omitempty"` // typing
}

func enc(s string) string { return base64.StdEncoding.EncodeToString([]byte(s)) }
func dec(s string) string { b, _ := base64.StdEncoding.DecodeString(s); return string(b) }

// ------------------------------------------------------------ in-proc oracle

// safeForBrowser: would a browser resolve v as a relative reference or with
// an allowed scheme?
func safeForBrowser(v string) (scheme string, ok bool) {
	sch, has := whaturl.Scheme(v)
	return sch, !has || allowed[sch]
}

// judge applies the monitor to one input. "" = held.
//
//	out == Failed                      -> held (always acceptable)
//	out == s and s is safe for browser -> held
//	anything else                      -> violation
func judge(s string) string {
	out := string(templ.URL(s))
	if out == failed {
		return ""
	}
	if out != s {
		return fmt.Sprintf("templ.URL(%q) returned %q, which is neither the input nor the failure URL", s, out)
	}
	if sch, ok := safeForBrowser(s); !ok {
		return fmt.Sprintf("templ.URL(%q) returned the input unchanged, but a browser resolves it with scheme %q (after stripping: %q)", s, sch, whaturl.Strip(s))
	}
	return ""
}

// shrink: greedy byte-wise deletion to a fixed point, then canonicalisation
// (letters -> TAB or 'a', blanks and controls -> TAB where the oracle keeps failing),
// repeated until nothing changes; the fixed point is the canonical witness.
func shrink(s string, bad func(string) bool) string {
	// long witnesses (padding family): delete halves, quarters, … first, so the
	// byte-wise loop below only ever sees a short string
	for chunk := len(s) / 2; chunk >= 2; chunk /= 2 {
		for i := 0; i+chunk <= len(s); {
			if t := s[:i] + s[i+chunk:]; bad(t) {
				s = t
			} else {
				i += chunk
			}
		}
	}
	for {
		before := s
		for changed := true; changed; {
			changed = false
			for i := 0; i < len(s); i++ {
				t := s[:i] + s[i+1:]
				if bad(t) {
					s, changed = t, true
					i--
				}
			}
		}
		b := []byte(s)
		for i := range b {
			var cands []byte
			switch {
			case b[i] == 'a':
				cands = []byte{'\t'}
			case b[i] >= 'b' && b[i] <= 'z':
				cands = []byte{'\t', 'a'}
			case b[i] >= 'A' && b[i] <= 'Z':
				cands = []byte{'\t', 'a', b[i] + 'a' - 'A'}
			case b[i] <= 0x20 && b[i] != '\t':
				cands = []byte{'\t'}
			}
			old := b[i]
			for _, r := range cands {
				b[i] = r
				if bad(string(b)) {
					break
				}
				b[i] = old
			}
		}
		s = string(b)
		// canonical shape of "disguised scheme" witnesses: everything before the
		// first colon becomes TAB padding followed by the one-letter scheme "a"
		if i := strings.IndexByte(s, ':'); i >= 1 {
			if t := strings.Repeat("\t", i-1) + "a" + s[i:]; t != s && bad(t) {
				s = t
			}
		}
		if s == before {
			return s
		}
	}
}

// found collects reduced in-proc witnesses; only the few smallest are
// reported (one root cause has many 1-minimal witnesses).
type found struct {
	mu sync.Mutex
	m  map[string]string // reduced witness -> first raw input
}

func (f *found) add(s string) {
	m := shrink(s, func(t string) bool { return judge(t) != "" })
	f.mu.Lock()
	if _, ok := f.m[m]; !ok {
		f.m[m] = s
	}
	f.mu.Unlock()
}

const maxURLKeys = 5

func (f *found) report(c *core.Ctx) {
	var ks []string
	for k := range f.m {
		ks = append(ks, k)
	}
	sort.Slice(ks, func(a, b int) bool {
		if len(ks[a]) != len(ks[b]) {
			return len(ks[a]) < len(ks[b])
		}
		return ks[a] < ks[b]
	})
	c.Set("sanitiser_distinct_reduced_witnesses", len(ks))
	for i, m := range ks {
		if i >= maxURLKeys {
			break
		}
		more := ""
		if len(ks) > maxURLKeys {
			more = fmt.Sprintf(" [%d distinct reduced witnesses in this run, the %d smallest are reported]", len(ks), maxURLKeys)
		}
		c.Violate("url "+core.Q(m), judge(m)+fmt.Sprintf(" [first seen as %q]", f.m[m])+more, Case{Kind: "url", S: enc(m)})
	}
}

// ------------------------------------------------------------ generators

// tokens: the adversarial token alphabet of DESIGN §4/C04.
var tokens = []string{"javascript", "JaVaScRiPt", "vbscript", "data", "http", "HTTPS", "mailto", "tel", "ftp", "ftps",
	"x", ":", "/", "\\", "?", "#", "%", "&", ";", "\t", "\n", "\r", " ", "\x00", "\x01", "é", "ſ", "K",
	"&colon;", "&#58;", "&Tab;", "%3A"}

// chars: the 14-symbol character alphabet ("tel" is the shortest allowed
// scheme, so allow-list hits, near misses like "telx:" and disguises like
// "t\tel:" all fit within the length bound).
const chars = "telTx:/\\?#\t\n \x00"

// nontrivial: the string has a ':' that is not preceded by '/', i.e. the
// sanitiser has to take a decision about a scheme.
func nontrivial(s string) bool {
	i := strings.IndexByte(s, ':')
	return i >= 0 && !strings.Contains(s[:i], "/")
}

var vectors = []string{
	"javascript:alert(1)", "JaVaScRiPt:alert(1)", "JAVASCRIPT:alert(1)", "javascript:alert('XSS')", "javascript://%0aalert(1)",
	"javascript://comment%0Aalert(1)", "javascript:/*--></title></style></textarea></script></xmp><svg/onload='+/\"/+/onmouseover=1/+/[*/[]/+alert(1)//'>",
	"jav\tascript:alert(1)", "jav&#x09;ascript:alert('XSS');", "jav&#x0A;ascript:alert('XSS');", "jav&#x0D;ascript:alert('XSS');",
	"jav\nascript:alert(1)", "jav\rascript:alert(1)", " javascript:alert(1)", "\tjavascript:alert(1)", "\x01javascript:alert(1)",
	"\x00javascript:alert(1)", " &#14;  javascript:alert('XSS');", "\x0e  javascript:alert(1)", "\x1fjavascript:alert(1)",
	"&#106;&#97;&#118;&#97;&#115;&#99;&#114;&#105;&#112;&#116;&#58;&#97;&#108;&#101;&#114;&#116;&#40;&#39;&#88;&#83;&#83;&#39;&#41;",
	"&#0000106&#0000097&#0000118&#0000097&#0000115&#0000099&#0000114&#0000105&#0000112&#0000116&#0000058&#0000097",
	"&#x6A&#x61&#x76&#x61&#x73&#x63&#x72&#x69&#x70&#x74&#x3A&#x61&#x6C&#x65&#x72&#x74&#x28&#x27&#x58&#x53&#x53&#x27&#x29",
	"javascript&colon;alert(1)", "javascript&#58;alert(1)", "javascript&#x3a;alert(1)", "javascript&#x3A alert(1)", "javascript%3Aalert(1)",
	"javascript\uff1aalert(1)", "java\x00script:alert(1)", "java\x0bscript:alert(1)", "java\x0cscript:alert(1)", "java script:alert(1)",
	"javascript :alert(1)", "javascript\t:alert(1)", "javascript\n:alert(1)", "javascript:\nalert(1)", "javascript:javascript:alert(1)",
	"http:javascript:alert(1)", "feed:javascript:alert(1)", "feed:data:text/html,<script>alert(1)</script>", "jar:javascript:alert(1)",
	"view-source:javascript:alert(1)", "view-source:http://x", "vbscript:msgbox(1)", "VBScript:MsgBox(1)", "vbs:msgbox(1)", "livescript:alert(1)",
	"mocha:alert(1)", "ecmascript:alert(1)", "jscript:alert(1)", "data:text/html,<script>alert(1)</script>",
	"data:text/html;base64,PHNjcmlwdD5hbGVydCgxKTwvc2NyaXB0Pg==", "DATA:text/html,x", "data:,x", "data:image/svg+xml,<svg onload=alert(1)>",
	"blob:http://x/1", "filesystem:http://x/temporary/a", "file:///etc/passwd", "about:blank", "about:srcdoc", "chrome://settings",
	"resource://x", "ws://x", "wss://x", "intent://x#Intent;scheme=javascript;end", "sms:1", "tel:+1", "TEL:+1", "mailto:a@b.c", "MAILTO:a@b.c",
	"ftp://x", "ftps://x", "FTPS://x", "http://x", "https://x", "HtTpS://x", "//x/y", "/x:y", "./x:y", "x/y:z", "?x:y", "#x:y", "x:y", "x",
	"", ":", "::", ":x", "1:x", "+:x", "-:x", ".:x", "a+b:x", "a-b:x", "a.b:x", "a1:x", "h:x", "ht:x", "htt:x", "httpx:x", "xhttp:x",
	"http s:x", "https:", "httpſ:x", "ftpſ:x", "HTTPſ://x", "K:x", "javascrıpt:alert(1)", "javaſcript:alert(1)", "javaScrİpt:alert(1)",
	"\ufeffjavascript:alert(1)", "\u00a0javascript:alert(1)", "\u2028javascript:alert(1)", "\u3000javascript:alert(1)", "\u200bjavascript:alert(1)",
	"\\javascript:alert(1)", "\\\\x/javascript:alert(1)", "/\\x", "\\/x", "http:\\\\x", "http:/\\x", "http:x", "https:x@y",
	"javascript:alert(1)//http://x", "javascript:alert(1)?http://", "javascript:alert(1)#http:", "http://x/\"onmouseover=\"alert(1)",
	"http://x/'onmouseover='alert(1)", "/x\"><script>alert(1)</script>", "http://x/><img src=x onerror=alert(1)>", "/x&quot;onclick=&quot;alert(1)",
	"/x&#34; onclick=alert(1)", "http://x/?a=1&b=2&amp;c=3", "mailto:a@b?subject=<script>", "tel:\"><svg onload=alert(1)>", "/x\x00\"y", "/x\r\ny",
	"\xffjavascript:alert(1)", "java\xffscript:alert(1)", "javascript\xc0\xba alert(1)", "\xc0\xbajavascript:x",
}

var inserts = []string{"\t", "\n", "\r", " ", "\x00", "\x01", "\x0b", "\x0c", "/", "\\", "\u00a0", "\u2028", "\ufeff", "&Tab;", "&NewLine;", "%09", "%0a", "&#9;", "\x7f", "\xff"}

// mutate yields deterministic mutations of a vector (insertions up to just
// after the first colon, affixes, case changes, look-alikes, colon spellings).
func mutate(v string, emit func(string)) {
	emit(v)
	lim := strings.IndexByte(v, ':')
	if lim < 0 || lim > 24 {
		lim = min(len(v), 12) - 1
	}
	for _, ins := range inserts {
		for p := 0; p <= lim+1 && p <= len(v); p++ {
			emit(v[:p] + ins + v[p:])
		}
		emit(v + ins)
		emit(ins + ins + v)
		emit(ins + v + ins)
	}
	emit(strings.ToUpper(v))
	emit(strings.ToLower(v))
	alt := []byte(v)
	for i := range alt {
		if i%2 == 0 && alt[i] >= 'a' && alt[i] <= 'z' {
			alt[i] -= 32
		}
	}
	emit(string(alt))
	for _, r := range [][2]string{{"s", "ſ"}, {"S", "ſ"}, {"k", "K"}, {"i", "ı"}, {"i", "İ"}, {"a", "а"}, {":", "&colon;"}, {":", "&#58;"},
		{":", "&#x3a;"}, {":", "%3a"}, {":", "\uff1a"}, {":", ":\t"}, {":", "\t:"}, {":", " :"}, {":", "::"}, {":", ";"}, {":", ":/"}, {":", "/:"}} {
		if strings.Contains(v, r[0]) {
			emit(strings.Replace(v, r[0], r[1], 1))
			emit(strings.ReplaceAll(v, r[0], r[1]))
		}
	}
	for _, pre := range []string{"/", "//", "./", "?", "#", "x", "http:", "https://x/", "mailto:", "tel:", "a:", "1", "+", "&", ";", "%20", "&#32;", "&nbsp;"} {
		emit(pre + v)
	}
}

// padLengths: 0..8, then values around powers of two and typical buffer
// sizes (a sanitiser that bounds its scan, copies into a fixed buffer or
// switches algorithm by length changes behaviour exactly there).
func padLengths() []int {
	var ns []int
	for n := 0; n <= 8; n++ {
		ns = append(ns, n)
	}
	ns = append(ns, 15, 16, 17, 31, 32, 33)
	for n := 55; n <= 70; n++ {
		ns = append(ns, n)
	}
	for _, p := range []int{128, 256, 512, 1024, 4096, 65536} {
		ns = append(ns, p-1, p, p+1)
	}
	return ns
}

var padSchemes = []string{"javascript", "JaVaScRiPt", "vbscript", "data", "x", "http", "HTTPS", "mailto", "tel", "ftp", "ftps"}

// leading padding units: all stripped by a browser (C0 control or space).
var padLead = []string{" ", "\x00", "\x01", "\x1f", "\t", "\n", "\r", "\x0b\x0c", " \x00\t\n\r\x01"}

// embedded padding units: removed anywhere by a browser (TAB, LF, CR).
var padEmbed = []string{"\t", "\n", "\r", "\r\n\t"}

func rep(unit string, n int) string { // exactly n bytes of the repeated unit
	return strings.Repeat(unit, n/len(unit)+1)[:n]
}

// padJobs lists the (scheme, family) pairs; padFamily yields, for one pair,
// one string per length. Families:
//
//	lead/u    : u^n scheme ":" tail          (leading strippable padding)
//	embed/u/k : scheme[:k] u^n scheme[k:] ":" tail, k in {1, mid, len}
//	both/u    : " "^(n/2) scheme[:1] u^(n-n/2) scheme[1:] ":" tail
//	trail     : u^n scheme ":" tail u^n       (padding on both ends)
//	run       : scheme a^n ":" tail          (a long scheme that is NOT stripped
//	            and not on the allow-list) and a^n scheme ":" tail
//	nostrip   : DEL^n / NBSP^n scheme ":"    (not stripped: a relative reference)
//
// n runs over padLengths and additionally over the values that put the colon
// at offset P-1, P, P+1 for every power of two P in 16..65536.
type padJob struct {
	scheme, fam, unit string
	k                 int
}

func padJobs() []padJob {
	var js []padJob
	for _, sc := range padSchemes {
		for _, u := range padLead {
			js = append(js, padJob{sc, "lead", u, 0}, padJob{sc, "trail", u, 0})
		}
		for _, u := range padEmbed {
			for _, k := range []int{1, (len(sc) + 1) / 2, len(sc)} {
				js = append(js, padJob{sc, "embed", u, k})
			}
			js = append(js, padJob{sc, "both", u, 0})
		}
		js = append(js, padJob{sc, "run", "a", 0}, padJob{sc, "run", "A9+-.", 0}, padJob{sc, "nostrip", "\x7f", 0}, padJob{sc, "nostrip", "\u00a0", 0})
	}
	return js
}

func padFamily(j padJob, emit func(string)) {
	sc := j.scheme
	ns := padLengths()
	for _, p := range []int{16, 32, 64, 128, 256, 512, 1024, 4096, 65536} {
		for d := -1; d <= 1; d++ {
			if n := p + d - len(sc); n > 8 {
				ns = append(ns, n) // colon lands at offset p+d
			}
		}
	}
	sort.Ints(ns)
	for i, n := range ns {
		if i > 0 && n == ns[i-1] {
			continue
		}
		for _, tail := range []string{"alert(1)", "//x/y?z#w"} {
			switch j.fam {
			case "lead":
				emit(rep(j.unit, n) + sc + ":" + tail)
			case "trail":
				emit(rep(j.unit, n) + sc + ":" + tail + rep(j.unit, n))
			case "embed":
				emit(sc[:j.k] + rep(j.unit, n) + sc[j.k:] + ":" + tail)
			case "both":
				emit(rep(" ", n/2) + sc[:1] + rep(j.unit, n-n/2) + sc[1:] + ":" + tail)
			case "run":
				emit(sc + rep(j.unit, n) + ":" + tail)
				emit(rep(j.unit, n) + sc + ":" + tail)
			case "nostrip":
				emit(rep(j.unit, n) + sc + ":" + tail)
			}
		}
	}
}

// parallel runs fn(i) for i in [0,n) on all cores.
func parallel(n int, fn func(i int)) {
	var next int64 = -1
	var wg sync.WaitGroup
	for w := 0; w < runtime.NumCPU(); w++ {
		wg.Add(1)
		go func() {
			defer wg.Done()
			for {
				i := int(atomic.AddInt64(&next, 1))
				if i >= n {
					return
				}
				fn(i)
			}
		}()
	}
	wg.Wait()
}

// enumerate calls f for every sequence over syms of length <= maxLen whose
// first symbol is syms[first] (the empty sequence is the caller's business).
func enumerate(syms []string, first, maxLen int, f func(s string, idx []int)) {
	idx := make([]int, 0, maxLen)
	var rec func(prefix string)
	rec = func(prefix string) {
		f(prefix, idx)
		if len(idx) == maxLen {
			return
		}
		for i, t := range syms {
			idx = append(idx, i)
			rec(prefix + t)
			idx = idx[:len(idx)-1]
		}
	}
	idx = append(idx, first)
	rec(syms[first])
}

func inProc(c *core.Ctx, fd *found) (e2eValues []string) {
	var accepted, rejected, overblocked int64
	count := func(s string) {
		out := string(templ.URL(s))
		if out == failed {
			atomic.AddInt64(&rejected, 1)
			if _, ok := safeForBrowser(s); ok {
				atomic.AddInt64(&overblocked, 1)
			}
		} else {
			atomic.AddInt64(&accepted, 1)
		}
	}
	check := func(s string) {
		count(s)
		if judge(s) != "" {
			fd.add(s)
		}
	}

	// ---- exhaustive token sequences
	charSet := map[string]bool{}
	var charSyms []string
	for _, ch := range chars {
		charSet[string(ch)] = true
		charSyms = append(charSyms, string(ch))
	}
	tokInChars := make([]bool, len(tokens))
	for i, t := range tokens {
		tokInChars[i] = charSet[t]
	}
	maxTok := c.Pick(4, 5)
	var nTok, ntTok int64
	check("")
	parallel(len(tokens), func(first int) {
		var n, nt int64
		enumerate(tokens, first, maxTok, func(s string, idx []int) {
			n++
			check(s)
			if nontrivial(s) {
				// count as distinct only when not also produced by the character enumeration
				onlyChars := true
				for _, k := range idx {
					onlyChars = onlyChars && tokInChars[k]
				}
				if !onlyChars {
					nt++
				}
			}
		})
		atomic.AddInt64(&nTok, n)
		atomic.AddInt64(&ntTok, nt)
	})
	// ---- exhaustive character strings
	maxCh := c.Pick(6, 7)
	var nCh, ntCh int64
	parallel(len(charSyms)*len(charSyms), func(k int) {
		a, b := k/len(charSyms), k%len(charSyms)
		var n, nt int64
		visit := func(s string) {
			n++
			check(s)
			if nontrivial(s) {
				nt++
			}
		}
		if b == 0 {
			visit(charSyms[a]) // length-1 strings once per first symbol
		}
		pre := charSyms[a] + charSyms[b]
		var rec func(p string, d int)
		rec = func(p string, d int) {
			visit(p)
			if d == maxCh {
				return
			}
			for _, t := range charSyms {
				rec(p+t, d+1)
			}
		}
		rec(pre, 2)
		atomic.AddInt64(&nCh, n)
		atomic.AddInt64(&ntCh, nt)
	})
	c.Eval(int(nTok + nCh + 1))
	c.NontrivialN(int(ntTok + ntCh))
	c.Set("exhaustive_token_sequences", nTok+1)
	c.Set("exhaustive_char_strings", nCh)
	c.Set("exhaustive", false)
	c.Set("exhaustive_subspace", fmt.Sprintf("every sequence of <=%d tokens over the %d-token alphabet and every string of length <=%d over the %d-symbol character alphabet %q were enumerated completely through templ.URL",
		maxTok, len(tokens), maxCh, len(charSyms), chars))

	// ---- XSS vectors with mutations
	seen := map[string]struct{}{}
	var muts []string
	for _, v := range vectors {
		mutate(v, func(s string) {
			if _, ok := seen[s]; !ok {
				seen[s] = struct{}{}
				muts = append(muts, s)
			}
		})
	}
	parallel(len(muts), func(i int) {
		check(muts[i])
		if nontrivial(muts[i]) {
			c.NontrivialStr(muts[i])
		}
	})
	c.Eval(len(muts))
	c.Set("xss_vectors", len(vectors))
	c.Set("xss_vector_mutations", len(muts))

	// ---- long padding family (size boundaries)
	pj := padJobs()
	var nPad, ntPad, padAccepted, padMax int64
	parallel(len(pj), func(i int) {
		var n, nt, acc, mx int64
		padFamily(pj[i], func(s string) {
			n++
			check(s)
			if string(templ.URL(s)) == s {
				acc++
			}
			if nontrivial(s) {
				nt++
				c.NontrivialStr(s) // n=0 and coinciding lengths repeat strings: deduplicate by hash
			}
			mx = max(mx, int64(len(s)))
		})
		atomic.AddInt64(&nPad, n)
		atomic.AddInt64(&ntPad, nt)
		atomic.AddInt64(&padAccepted, acc)
		for {
			cur := atomic.LoadInt64(&padMax)
			if mx <= cur || atomic.CompareAndSwapInt64(&padMax, cur, mx) {
				break
			}
		}
	})
	c.Eval(int(nPad))
	_ = ntPad
	c.Set("long_padding_strings", nPad)
	c.Set("long_padding_families", len(pj))
	c.Set("long_padding_returned_unchanged", padAccepted)
	c.Set("long_padding_max_input_bytes", padMax)
	if nPad > 0 {
		ex := rep(" ", 64) + "javascript:alert(1)"
		c.Sample(map[string]any{"in": "64 spaces + javascript:alert(1)", "templ.URL": string(templ.URL(ex)), "browser_scheme": "javascript"})
	}

	// ---- seeded random strings (tokens, characters and raw bytes mixed)
	nRand := c.Pick(200000, 3000000)
	rnd := c.Rand("random")
	rs := make([]string, nRand)
	for i := range rs {
		var sb strings.Builder
		n := 1 + rnd.Intn(12)
		if i%7 == 0 {
			n = 1 + rnd.Intn(60)
		}
		for k := 0; k < n; k++ {
			switch rnd.Intn(10) {
			case 0:
				sb.WriteByte(byte(rnd.Intn(256)))
			case 1, 2, 3:
				sb.WriteByte(chars[rnd.Intn(len(chars))])
			case 4:
				sb.WriteString(inserts[rnd.Intn(len(inserts))])
			default:
				sb.WriteString(tokens[rnd.Intn(len(tokens))])
			}
		}
		rs[i] = sb.String()
	}
	parallel(len(rs), func(i int) {
		check(rs[i])
		if nontrivial(rs[i]) {
			c.NontrivialStr(rs[i])
		}
	})
	c.Eval(nRand)
	c.Set("random_strings", nRand)
	c.Set("sanitiser_accepted_unchanged", accepted)
	c.Set("sanitiser_replaced_by_failure_url", rejected)
	c.Set("browser_safe_but_replaced(informational)", overblocked)
	c.Sample(map[string]any{"in": "java\tscript:alert(1)", "templ.URL": string(templ.URL("java\tscript:alert(1)")), "browser_scheme": "javascript"})
	c.Sample(map[string]any{"in": "httpſ:x", "templ.URL": string(templ.URL("httpſ:x")), "browser_scheme": "(none: relative reference)"})
	c.Sample(map[string]any{"in": muts[len(muts)/2], "templ.URL": string(templ.URL(muts[len(muts)/2]))})
	c.Sample(map[string]any{"in": rs[0], "templ.URL": string(templ.URL(rs[0]))})

	// values for the end-to-end part: every mutation, all token sequences of
	// length <= 2, a slice of the random strings
	e2eValues = append(e2eValues, muts...)
	e2eValues = append(e2eValues, "")
	for i := range tokens {
		enumerate(tokens, i, 2, func(s string, _ []int) { e2eValues = append(e2eValues, s) })
	}
	nr := c.Pick(3000, 60000)
	e2eValues = append(e2eValues, rs[:nr]...)
	for _, n := range []int{64, 65, 1024, 4097} { // a few long padded values also go through the compiled templates
		e2eValues = append(e2eValues, rep(" ", n)+"javascript:alert(1)", "java"+rep("\t", n)+"script:alert(1)", rep("\x00\n", n)+"http://x/\"y", "x"+rep("a", n)+":z")
	}
	if c.Quick() { // thin out the mutation list deterministically
		var thin []string
		for i, v := range e2eValues {
			if i%3 == 0 || strings.ContainsAny(v, "\"'<>&") {
				thin = append(thin, v)
			}
		}
		e2eValues = thin
	}
	return e2eValues
}

// ------------------------------------------------------------ end to end

const e2eTempl = `package main

templ A(s string) {
	<a data-a="1" href={ templ.URL(s) } data-z="2">t</a>
}

templ F(s string) {
	<form data-a="1" action={ templ.URL(s) } data-z="2">t</form>
}

templ CA(s string) {
	<a data-a="1" if true { href={ templ.URL(s) } } data-z="2">t</a>
}

templ SP(at templ.Attributes) {
	<a data-a="1" { at... } data-z="2">t</a>
}

templ CF(s string) {
	<form data-a="1" if false { data-n="0" } else { action={ templ.URL(s) } } data-z="2">t</form>
}
`

// The driver renders jobs and logs bytes; it decides nothing.
const e2eDriver = `package main

import (
	"bufio"
	"bytes"
	"context"
	"encoding/base64"
	"encoding/json"
	"os"

	"github.com/a-h/templ"
)

type job struct {
	I int    ` + "`json:\"i\"`" + `
	K string ` + "`json:\"k\"`" + `
	S string ` + "`json:\"s\"`" + `
}
type res struct {
	I int    ` + "`json:\"i\"`" + `
	O string ` + "`json:\"o\"`" + `
	E string ` + "`json:\"e,omitempty\"`" + `
}

func main() {
	reg := map[string]func(string) templ.Component{"A": A, "F": F, "CA": CA, "CF": CF,
		"SP": func(s string) templ.Component { return SP(templ.Attributes{"href": s}) }}
	in := bufio.NewScanner(os.Stdin)
	in.Buffer(make([]byte, 1<<20), 1<<26)
	out := bufio.NewWriter(os.Stdout)
	defer out.Flush()
	enc := json.NewEncoder(out)
	for in.Scan() {
		var j job
		if err := json.Unmarshal(in.Bytes(), &j); err != nil {
			continue
		}
		s, _ := base64.StdEncoding.DecodeString(j.S)
		var buf bytes.Buffer
		r := res{I: j.I}
		if err := reg[j.K](string(s)).Render(context.Background(), &buf); err != nil {
			r.E = err.Error()
		}
		r.O = base64.StdEncoding.EncodeToString(buf.Bytes())
		enc.Encode(r)
	}
}
`

var sinks = []struct{ name, elem, attr string }{{"A", "a", "href"}, {"F", "form", "action"}, {"CA", "a", "href"}, {"CF", "form", "action"}}

// spreadSink is observed, not judged: spread attributes (templ.Attributes) are a
// dynamic attribute *set*; the typing clause of the statement is designed around
// href={…}/action={…} expressions. What it renders is recorded in the evidence.
const spreadSink = 4

// judgeE2E decides one rendered output. "" = held.
//
// Rules: the HTML5 token stream must have the benign skeleton (one start tag
// with exactly data-a, <attr>, data-z; text "t"; end tag) — i.e. the value is
// attribute-escaped; the decoded attribute value must equal what the
// sanitiser returned (modulo the CR/NUL preprocessing of html5.NormText); and
// the decoded value must be the failure URL or safe for a browser.
func judgeE2E(elem, attr, s string, rendered []byte) string {
	toks, err := html5.Tokenize(rendered)
	if err != nil {
		return fmt.Sprintf("tokenizer error %v on %q", err, rendered)
	}
	want := "<" + elem + " data-a " + attr + " data-z>T</" + elem + ">"
	if sk := html5.Skeleton(toks); sk != want {
		return fmt.Sprintf("rendering %q for input %q has HTML structure %s, want %s (value not attribute-escaped)", rendered, s, sk, want)
	}
	st := toks[0]
	if st.Attrs[0].Val != "1" || st.Attrs[2].Val != "2" || toks[1].Data != "t" {
		return fmt.Sprintf("rendering %q for input %q changed the neighbouring attribute/text values", rendered, s)
	}
	got := st.Attrs[1].Val
	out := string(templ.URL(s))
	if html5.NormText(got) != html5.NormText(out) {
		return fmt.Sprintf("decoded %s=%q differs from templ.URL(%q)=%q", attr, got, s, out)
	}
	if got == failed {
		return ""
	}
	for _, v := range []string{got, html5.NormText(got)} {
		if sch, ok := safeForBrowser(v); !ok {
			return fmt.Sprintf("decoded %s=%q (input %q) is resolved by a browser with scheme %q", attr, got, s, sch)
		}
	}
	return ""
}

// ejob is one render job: sink index and input string.
type ejob struct {
	sink int
	s    string
}

type e2ePkg struct {
	p   *corpus.Pkg
	bin string
}

func buildE2E(c *core.Ctx) *e2ePkg {
	p := corpus.New(c, "c04")
	p.Write("t.templ", e2eTempl)
	p.Write("main.go", e2eDriver)
	if out, err := p.Generate(); err != nil {
		c.Inconclusive("templ generate failed on the C04 end-to-end templates: " + corpus.Tail(out, 400))
		return nil
	}
	bin, out, err := p.Build(false, ".")
	if err != nil {
		c.Inconclusive("go build failed on the C04 end-to-end package: " + corpus.Tail(out, 600))
		return nil
	}
	return &e2ePkg{p, bin}
}

func (e *e2ePkg) run(c *core.Ctx, jobs []ejob) map[int][]byte {
	var in bytes.Buffer
	for i, j := range jobs {
		name := "SP"
		if j.sink != spreadSink {
			name = sinks[j.sink].name
		}
		fmt.Fprintf(&in, "{\"i\":%d,\"k\":%q,\"s\":%q}\n", i, name, enc(j.s))
	}
	r := corpus.Run(e.bin, nil, in.Bytes(), nil, e.p.Dir, 10*time.Minute)
	if r.TimedOut || r.Err != nil {
		c.Inconclusive(fmt.Sprintf("C04 driver failed: timeout=%v err=%v stderr=%s", r.TimedOut, r.Err, corpus.Tail(string(r.Stderr), 400)))
		return nil
	}
	res := map[int][]byte{}
	sc := bufio.NewScanner(bytes.NewReader(r.Stdout))
	sc.Buffer(make([]byte, 1<<20), 1<<26)
	for sc.Scan() {
		var x struct {
			I int
			O string
			E string
		}
		if json.Unmarshal(sc.Bytes(), &x) != nil {
			continue
		}
		if x.E != "" {
			c.Inconclusive("render error in driver: " + x.E)
			continue
		}
		b, _ := base64.StdEncoding.DecodeString(x.O)
		res[x.I] = b
	}
	return res
}

func endToEnd(c *core.Ctx, values []string) {
	e := buildE2E(c)
	if e == nil {
		return
	}
	defer e.p.Close()
	var jobs []ejob
	for si := range sinks {
		for _, v := range values {
			jobs = append(jobs, ejob{si, v})
		}
	}
	res := e.run(c, jobs)
	if res == nil {
		return
	}
	if len(res) != len(jobs) {
		c.Inconclusive(fmt.Sprintf("driver answered %d of %d jobs", len(res), len(jobs)))
	}
	type bad ejob
	var mu sync.Mutex
	var bads []bad
	var escaped, attributed int64
	parallel(len(jobs), func(i int) {
		b, ok := res[i]
		if !ok {
			return
		}
		j := jobs[i]
		if bytes.ContainsAny(b, "&") {
			atomic.AddInt64(&escaped, 1)
		}
		if judgeE2E(sinks[j.sink].elem, sinks[j.sink].attr, j.s, b) != "" {
			if judge(j.s) != "" { // the sanitiser itself already fails on this input: reported there
				atomic.AddInt64(&attributed, 1)
				return
			}
			mu.Lock()
			bads = append(bads, bad{j.sink, j.s})
			mu.Unlock()
		}
	})
	c.Eval(len(res))
	for _, v := range values {
		if nontrivial(v) || strings.ContainsAny(v, "\"'<>&") {
			c.NontrivialStr("e2e", v)
		}
	}
	c.Set("e2e_renders", len(res))
	c.Set("e2e_sinks", len(sinks))
	c.Set("e2e_outputs_with_character_references", escaped)
	c.Set("e2e_violations_attributed_to_the_sanitiser", attributed)
	if b, ok := res[0]; ok {
		c.Sample(map[string]any{"sink": sinks[jobs[0].sink].name, "in": jobs[0].s, "rendered": string(b)})
	}
	if r := e.run(c, []ejob{{spreadSink, "javascript:alert(1)"}}); r != nil {
		c.Set("informational:spread_attributes_href_javascript_rendered_as", string(r[0]))
	}
	// reduce: shrink per sink by re-rendering candidate batches (one driver run per round)
	sort.Slice(bads, func(a, b int) bool {
		if bads[a].sink != bads[b].sink {
			return bads[a].sink < bads[b].sink
		}
		if len(bads[a].s) != len(bads[b].s) {
			return len(bads[a].s) < len(bads[b].s)
		}
		return bads[a].s < bads[b].s
	})
	done := map[int]int{}
	for _, b := range bads {
		if done[b.sink] >= 3 { // a few shortest witnesses per sink are enough
			continue
		}
		done[b.sink]++
		m := e.shrink(c, b.sink, b.s)
		r := e.run(c, []ejob{{b.sink, m}})
		msg := judgeE2E(sinks[b.sink].elem, sinks[b.sink].attr, m, r[0])
		c.Violate(fmt.Sprintf("e2e %s/%s %s", sinks[b.sink].elem, sinks[b.sink].attr, core.Q(m)), msg, Case{Kind: "e2e", Sink: sinks[b.sink].name, S: enc(m)})
	}
}

// shrink by batched deletion rounds: every single-byte deletion of the
// current witness is rendered in one driver run; the first that still fails
// is taken.
func (e *e2ePkg) shrink(c *core.Ctx, sink int, s string) string {
	for round := 0; round < 200 && len(s) > 0; round++ {
		var jobs []ejob
		for i := 0; i < len(s); i++ {
			jobs = append(jobs, ejob{sink, s[:i] + s[i+1:]})
		}
		res := e.run(c, jobs)
		found := false
		for i := range jobs {
			if b, ok := res[i]; ok && judge(jobs[i].s) == "" && judgeE2E(sinks[sink].elem, sinks[sink].attr, jobs[i].s, b) != "" {
				s, found = jobs[i].s, true
				break
			}
		}
		if !found {
			break
		}
	}
	return s
}

// ------------------------------------------------------------ typing clause

// Probe is one compile probe: a package holding a single template.
type Probe struct {
	Elem  string `json:"elem"`
	Attr  string `json:"attr"`
	Cond  bool   `json:"cond"`  // attribute inside an `if` conditional attribute
	Plain bool   `json:"plain"` // true: expression is a plain string (must NOT compile)
}

func (p Probe) templ() string {
	expr := "templ.URL(s)"
	if p.Plain {
		expr = "s"
	}
	at := fmt.Sprintf("%s={ %s }", p.Attr, expr)
	if p.Cond {
		at = "if s != \"\" { " + at + " }"
	}
	return fmt.Sprintf("package probe\n\ntempl P(s string) {\n\t<%s %s>t</%s>\n}\n", p.Elem, at, p.Elem)
}

func (p Probe) String() string {
	s := fmt.Sprintf("<%s %s={ %s }>", p.Elem, p.Attr, map[bool]string{true: "plainString", false: "templ.URL(s)"}[p.Plain])
	if p.Cond {
		s += " (conditional attribute)"
	}
	return s
}

// class is the canonical witness class of a typing violation: HTML element
// and attribute names are ASCII case-insensitive, so every spelling of a/href
// and form/action denotes the same sink.
func (p Probe) class() string {
	switch {
	case p.Elem != strings.ToLower(p.Elem):
		return "mixed-case element name"
	case p.Attr != strings.ToLower(p.Attr):
		return "mixed-case attribute name"
	case p.Cond:
		return "conditional attribute"
	}
	return "canonical spelling"
}

type probeResult struct {
	genErr, buildErr bool
	out              string
}

func runProbe(c *core.Ctx, p Probe) probeResult {
	pk := corpus.New(c, "c04probe")
	defer pk.Close()
	pk.Write("p.templ", p.templ())
	if out, err := pk.Generate(); err != nil {
		return probeResult{genErr: true, out: out}
	}
	out, err := pk.BuildOnly(".")
	return probeResult{buildErr: err != nil, out: out}
}

func judgeProbe(c *core.Ctx, p Probe, r probeResult) {
	c.Eval(1)
	canonical := p.class() == "canonical spelling" || p.class() == "conditional attribute"
	switch {
	case r.genErr:
		c.Inconclusive("templ generate rejected typing probe " + p.String() + ": " + corpus.Tail(r.out, 300))
	case p.Plain && !r.buildErr:
		why := "the generator does not route this href/action expression through a templ.SafeURL-typed variable"
		if !canonical {
			why = "the generator routes the value through templ.SafeURL only for the exact lower-case spelling, while browsers treat element and attribute names ASCII case-insensitively (so " + p.Attr + "=\"javascript:…\" is a live link)"
		}
		c.Violate("typing: plain string accepted, "+p.class(), fmt.Sprintf("%s compiles although the expression is a plain string: %s", p.String(), why), Case{Kind: "typing", Probe: &p})
	case p.Plain && !strings.Contains(r.out, "templ.SafeURL"):
		c.Inconclusive("typing probe " + p.String() + " failed to build, but not with a SafeURL type error: " + corpus.Tail(r.out, 300))
	case !p.Plain && r.buildErr && canonical:
		c.Violate("typing: templ.URL value rejected, "+p.class(), p.String()+" does not compile: "+corpus.Tail(r.out, 300), Case{Kind: "typing", Probe: &p})
	case !p.Plain && r.buildErr:
		c.Add("typing_safe_url_rejected_in_noncanonical_spelling(informational)", 1)
	}
}

func typing(c *core.Ctx) {
	corpus.TemplBin(c, false) // build once before fanning out
	var probes []Probe
	for _, ea := range [][2]string{{"a", "href"}, {"a", "HREF"}, {"a", "Href"}, {"form", "action"}, {"form", "ACTION"}, {"form", "aCtion"}, {"fORM", "action"}, {"foRm", "action"}} {
		for _, plain := range []bool{true, false} {
			probes = append(probes, Probe{ea[0], ea[1], false, plain})
		}
	}
	for _, ea := range [][2]string{{"a", "href"}, {"form", "action"}, {"a", "HREF"}} {
		for _, plain := range []bool{true, false} {
			probes = append(probes, Probe{ea[0], ea[1], true, plain})
		}
	}
	results := make([]probeResult, len(probes))
	parallel(len(probes), func(i int) { results[i] = runProbe(c, probes[i]) })
	rejected := 0
	for i, p := range probes {
		judgeProbe(c, p, results[i])
		if p.Plain && results[i].buildErr && strings.Contains(results[i].out, "templ.SafeURL") {
			rejected++
			c.NontrivialStr("typing", p.String())
		}
	}
	c.Set("typing_probes", len(probes))
	c.Set("typing_plain_string_rejected_with_SafeURL_error", rejected)
	if rejected == 0 {
		c.Inconclusive("no typing probe was rejected with a SafeURL type error: the compile monitor observed nothing")
	}
	c.Sample(map[string]any{"probe": probes[0].String(), "go_build_failed": results[0].buildErr, "compiler_output": corpus.Tail(results[0].out, 200)})
}

// Run is the C04 check.
func Run(c *core.Ctx) {
	c.Rule = "in-proc: out=templ.URL(s) must be the failure URL, or equal s with whaturl.Scheme(s) in {none,http,https,mailto,tel,ftp,ftps}; inputs = exhaustive token sequences + exhaustive character strings (bounds in exhaustive_subspace) + XSS vectors x mutations + long-padding family (scheme spellings x strippable/removable/non-stripped padding kinds x lengths 0..8 and around 16,32,55..70,128,…,65536, colon placed at every power-of-two offset +-1) + seeded random; end-to-end: the same values rendered by compiled <a href={templ.URL(s)}>/<form action=…> (plain and conditional attributes), HTML5-tokenised, decoded value == templ.URL(s), safe scheme, skeleton intact; typing: compile probes. non-trivial = the string has a ':' not preceded by '/' (e2e also: contains an HTML metacharacter); typing probes rejected with a SafeURL error count as one each; distinct by string"
	c.Assume("a browser extracts the scheme as the WHATWG URL basic parser does (oracle/whaturl): strip leading/trailing C0-or-space, drop TAB/LF/CR, scheme-start/scheme states; a string without scheme is a relative reference and inherits the page's scheme")
	c.Assume("templ.URL returning the failure URL is always acceptable (over-blocking is not a violation of the statement); over-blocking is only counted")
	c.Assume("golang.org/x/net/html tokenises and decodes attribute values as a browser does")
	if c.ReplayFile != "" {
		replay(c)
		return
	}
	fd := &found{m: map[string]string{}}
	vals := inProc(c, fd)
	fd.report(c)
	endToEnd(c, vals)
	typing(c)
}

func replay(c *core.Ctx) {
	var cs Case
	c.LoadReplay(&cs)
	c.Eval(1)
	c.NontrivialN(2)
	switch cs.Kind {
	case "url":
		s := dec(cs.S)
		if m := judge(s); m != "" {
			c.Violate("url "+core.Q(s), m, cs)
		}
	case "e2e":
		e := buildE2E(c)
		if e == nil {
			return
		}
		defer e.p.Close()
		for si, sk := range sinks {
			if sk.name != cs.Sink {
				continue
			}
			s := dec(cs.S)
			r := e.run(c, []ejob{{si, s}})
			if m := judgeE2E(sk.elem, sk.attr, s, r[0]); m != "" {
				c.Violate(fmt.Sprintf("e2e %s/%s %s", sk.elem, sk.attr, core.Q(s)), m, cs)
			}
		}
	case "typing":
		judgeProbe(c, *cs.Probe, runProbe(c, *cs.Probe))
	default:
		core.Infra("unknown replay kind %q", cs.Kind)
	}
}
