package c07

import (
	"fmt"
	"go/ast"
	goparser "go/parser"
	"go/token"
	"sort"
	"strings"
	"unicode/utf8"

	"github.com/a-h/templ/parser/v2"
	"verif/checks/ptree"
)

// Stats are measured while the oracle runs (evidence only).
type Stats struct {
	Exprs, Positions, EOLs, MidRune, MultiLine, MultiByte, MBBefore  int
	Symbols, GoBlocksNoSymbol, MapEntries, StrayEqual, StrayNoSource int
	BlankMapped                                                      int               // empty/blank expressions with a map entry, checked by R9
	Slots                                                            map[string][3]int // slot -> {expressions, multi-line, multi-byte}
}

// CheckSourceMap is the C07 oracle. Coordinates (learnt from sourcemap.go and
// github.com/a-h/parse): Line is the 0-based count of '\n' before the byte, Col
// the BYTE offset from the line start, and the tables hold one entry per
// rune-start byte of every expression line plus one entry for the position
// just past the line. An editor can only address rune starts, so those are the
// positions demanded; bytes in the middle of a rune are counted, not demanded.
//
// Rules (trusted base), for an accepted template with source S, generated text
// G (the generator's output, which is what the LSP hands to gopls) and map M:
//
//	R1 mapped        every rune-start byte k of every non-blank expression
//	                 (k = Range.From.Index + offset into Value), incl. its
//	                 newlines, has M.TargetPositionFromSource(line(k), col(k)).
//	                 A missing first byte is reported as "uncovered".
//	R2 same byte     G[tp.Index .. +runelen] == S[k .. +runelen].
//	R3 target pos    (tp.Line, tp.Col) is where tp.Index lies in G.
//	R4 consecutive   two neighbouring runes on one expression line map to
//	                 neighbouring target indices.
//	R5 round trip    M.SourcePositionFromTarget(tp.Line, tp.Col) == (line, col, k).
//	R6 end of line   the position just past the expression's last line maps to
//	                 the target position just past the copied line and round
//	                 trips; its byte is not compared. (Ends of inner lines are
//	                 the '\n' bytes, covered by R1-R5.) Not demanded when that
//	                 position is itself the first byte of another expression.
//	R7 no stray      every entry of M.SourceLinesToTarget whose source position
//	                 exists and is not an R6 position points at a target byte
//	                 equal to the source byte.
//	R8 symbols       every templ/css/script node has a symbol range at
//	                 (Range.From.Line, Range.From.Col); it lies in G, its
//	                 line/col agree with its indices, and it encloses a func
//	                 declaration (go/parser on G) of the name declared in S.
//	                 A top-level Go block's recorded range must start with the
//	                 block's text; a range is demanded for blocks that contain a
//	                 declaration and do not end in a // comment line.
func CheckSourceMap(a *ptree.Accepted) ([]ptree.Alarm, Stats) {
	src, gen, sm := a.Src, a.Gen, a.Out.SourceMap
	sl, gl := ptree.NewLines(src), ptree.NewLines(gen)
	st := Stats{Slots: map[string][3]int{}}
	var alarms []ptree.Alarm
	seenAlarm := map[string]bool{}
	alarm := func(kind, slot, f string, args ...any) {
		// one alarm per (kind, slot) per program keeps reports readable
		if seenAlarm[kind+"|"+slot] {
			return
		}
		seenAlarm[kind+"|"+slot] = true
		alarms = append(alarms, ptree.Alarm{Kind: kind, Slot: slot, Msg: fmt.Sprintf(f, args...)})
	}
	items := ptree.Walk(a.TF)
	var exprs []ptree.Expr
	inside := map[int]bool{} // rune-start source bytes inside some expression
	eol := map[int]bool{}    // R6 positions
	for _, x := range items.Exprs {
		if strings.TrimSpace(x.E.Value) == "" {
			// A blank expression (e.g. attr={}) has no bytes to demand, but the
			// generator may register its blanks and its end position: those
			// entries are legitimate, not stray.
			for j := 0; j <= len(x.E.Value); j++ {
				eol[int(x.E.Range.From.Index)+j] = true
			}
			continue
		}
		exprs = append(exprs, x)
		base := int(x.E.Range.From.Index)
		for j := range x.E.Value {
			inside[base+j] = true
		}
		eol[base+len(x.E.Value)] = true
	}
	posOK := func(l *ptree.Lines, p parser.Position) bool {
		if p.Index < 0 || int(p.Index) > l.N {
			return false
		}
		ln, c := l.Pos(int(p.Index))
		return ln == int(p.Line) && c == int(p.Col)
	}
	for _, x := range exprs {
		v, base, slot := x.E.Value, int(x.E.Range.From.Index), x.Slot
		st.Exprs++
		ml, mb := strings.Contains(v, "\n"), len(v) != utf8.RuneCountInString(v)
		sc := st.Slots[slot]
		sc[0]++
		if ml {
			sc[1]++
			st.MultiLine++
		}
		if mb {
			sc[2]++
			st.MultiByte++
		}
		st.Slots[slot] = sc
		if base >= 0 && base <= len(src) {
			ln, _ := sl.Pos(base)
			if pre := src[sl.Starts[ln]:base]; len(pre) != utf8.RuneCountInString(pre) {
				st.MBBefore++
			}
		}
		var prev parser.Position
		prevLen, havePrev := 0, false
		for j := 0; j < len(v); {
			_, n := utf8.DecodeRuneInString(v[j:])
			k := base + j
			st.MidRune += n - 1
			if k < 0 || k+n > len(src) {
				alarm("out-of-source", slot, "expression %q: byte %d of the value lies at source index %d outside the %d-byte source", ptree.Clip(v, 60), j, k, len(src))
				break
			}
			line, col := sl.Pos(k)
			st.Positions++
			tp, ok := sm.TargetPositionFromSource(uint32(line), uint32(col))
			if !ok {
				if j == 0 {
					alarm("uncovered", slot, "expression %q at source %d:%d has no source map entry for its first byte", ptree.Clip(v, 60), line, col)
					break
				}
				alarm("unmapped", slot, "source %d:%d (byte %d of expression %q) has no target position", line, col, j, ptree.Clip(v, 60))
				havePrev = false
				j += n
				continue
			}
			switch {
			case tp.Index < 0 || int(tp.Index)+n > len(gen):
				alarm("target-out-of-range", slot, "source %d:%d maps to target index %d outside the %d-byte generated text", line, col, tp.Index, len(gen))
			case gen[tp.Index:int(tp.Index)+n] != src[k:k+n]:
				alarm("mismatch", slot, "source %d:%d holds %q (in expression %q) but maps to target %d:%d holding %q (target line: %q)",
					line, col, src[k:k+n], ptree.Clip(v, 40), tp.Line, tp.Col, gen[tp.Index:int(tp.Index)+n], ptree.Clip(lineOf(gen, gl, int(tp.Index)), 80))
			case !posOK(gl, tp):
				alarm("target-linecol", slot, "source %d:%d maps to target index %d recorded as %d:%d, which is not where that index lies", line, col, tp.Index, tp.Line, tp.Col)
			}
			if havePrev && tp.Index != prev.Index+int64(prevLen) {
				alarm("nonconsecutive", slot, "source %d:%d follows its neighbour on the line but maps to target index %d, neighbour maps to %d (+%d bytes)", line, col, tp.Index, prev.Index, prevLen)
			}
			if sp, ok := sm.SourcePositionFromTarget(tp.Line, tp.Col); !ok || sp != parser.NewPosition(int64(k), uint32(line), uint32(col)) {
				alarm("roundtrip", slot, "source %d:%d (index %d) maps to target %d:%d which maps back to %v (ok=%v)", line, col, k, tp.Line, tp.Col, sp, ok)
			}
			prev, prevLen, havePrev = tp, n, src[k] != '\n'
			if src[k] == '\n' {
				// R6 for inner lines == R1-R5 on the newline byte; the next
				// line starts a new run for R4.
				st.EOLs++
			}
			j += n
		}
		// R6: just past the last line.
		k := base + len(v)
		if k <= len(src) && !inside[k] {
			line, col := sl.Pos(k)
			st.EOLs++
			tp, ok := sm.TargetPositionFromSource(uint32(line), uint32(col))
			switch {
			case !ok:
				alarm("eol-unmapped", slot, "position %d:%d just past expression %q has no target position", line, col, ptree.Clip(v, 60))
			case havePrev && tp.Index != prev.Index+int64(prevLen), !posOK(gl, tp):
				alarm("eol-position", slot, "position %d:%d just past expression %q maps to target %v, expected index %d", line, col, ptree.Clip(v, 60), tp, prev.Index+int64(prevLen))
			default:
				if sp, ok := sm.SourcePositionFromTarget(tp.Line, tp.Col); !ok || sp != parser.NewPosition(int64(k), uint32(line), uint32(col)) {
					alarm("eol-roundtrip", slot, "position %d:%d just past expression %q maps to target %d:%d which maps back to %v (ok=%v)", line, col, ptree.Clip(v, 60), tp.Line, tp.Col, sp, ok)
				}
			}
		}
	}
	// R7: every other entry of the table.
	for line, m := range sm.SourceLinesToTarget {
		for col, tp := range m {
			st.MapEntries++
			k, ok := sl.Index(int(line), int(col))
			if !ok {
				st.StrayNoSource++
				continue
			}
			if inside[k] || eol[k] {
				continue
			}
			if k < len(src) && tp.Index >= 0 && int(tp.Index) < len(gen) {
				if src[k] != gen[tp.Index] {
					alarm("stray", "map", "source map entry for source %d:%d (byte %q, not part of any expression) points at target %d:%d holding %q (target line: %q)",
						line, col, src[k:k+1], tp.Line, tp.Col, gen[tp.Index:tp.Index+1], ptree.Clip(lineOf(gen, gl, int(tp.Index)), 80))
				} else {
					st.StrayEqual++
				}
			}
		}
	}
	// R8: symbol ranges.
	fset := token.NewFileSet()
	gf, gerr := goparser.ParseFile(fset, "gen.go", gen, goparser.SkipObjectResolution)
	if gerr != nil {
		alarm("gen-unparsable", "file", "generated text does not parse although gofmt accepted it: %v", gerr)
		gf = nil
	}
	off := func(p token.Pos) int { return fset.Position(p).Offset }
	symbol := func(slot string, r parser.Range, what string) (parser.Range, bool) {
		tgt, ok := sm.SymbolTargetRangeFromSource(r.From.Line, r.From.Col)
		if !ok {
			return tgt, false
		}
		st.Symbols++
		if !posOK(gl, tgt.From) || !posOK(gl, tgt.To) || tgt.From.Index > tgt.To.Index {
			alarm("symbol-range", slot, "%s: recorded target range %v - %v is not a consistent range of the generated text", what, tgt.From, tgt.To)
			return tgt, false
		}
		return tgt, true
	}
	encloses := func(tgt parser.Range, name string) bool {
		if gf == nil {
			return true
		}
		for _, d := range gf.Decls {
			if fd, ok := d.(*ast.FuncDecl); ok && fd.Name.Name == name && off(fd.Pos()) >= int(tgt.From.Index) && off(fd.End()) <= int(tgt.To.Index) {
				return true
			}
		}
		return false
	}
	fn := func(slot string, r parser.Range, sig, name string) {
		if name == "" {
			return
		}
		what := slot + " " + name
		tgt, ok := sm.SymbolTargetRangeFromSource(r.From.Line, r.From.Col)
		if !ok {
			alarm("symbol-missing", slot, "%s declared at source %d:%d has no symbol range", what, r.From.Line, r.From.Col)
			return
		}
		if tgt, ok = symbol(slot, r, what); ok && !encloses(tgt, name) {
			alarm("symbol-enclose", slot, "%s: recorded target range %d..%d does not enclose a func declaration named %s", what, tgt.From.Index, tgt.To.Index, name)
		}
	}
	for _, n := range a.TF.Nodes {
		switch n := n.(type) {
		case parser.HTMLTemplate:
			fn("HTMLTemplate", n.Range, n.Expression.Value, funcName(n.Expression.Value))
		case parser.CSSTemplate:
			fn("CSSTemplate", n.Range, n.Expression.Value, funcName(n.Expression.Value))
		case parser.ScriptTemplate:
			fn("ScriptTemplate", n.Range, n.Name.Value, n.Name.Value)
		case parser.TemplateFileGoExpression:
			v := n.Expression.Value
			tgt, ok := sm.SymbolTargetRangeFromSource(n.Expression.Range.From.Line, n.Expression.Range.From.Col)
			if !ok {
				lines := strings.Split(v, "\n")
				if hasDecl(v) && !strings.HasPrefix(lines[len(lines)-1], "//") {
					alarm("symbol-missing", "GoBlock", "Go block %q at source %d:%d has no symbol range", ptree.Clip(v, 60), n.Expression.Range.From.Line, n.Expression.Range.From.Col)
				} else {
					st.GoBlocksNoSymbol++
				}
				continue
			}
			if tgt, ok = symbol("GoBlock", n.Expression.Range, "Go block"); ok && !strings.HasPrefix(gen[tgt.From.Index:tgt.To.Index], v) {
				alarm("symbol-enclose", "GoBlock", "Go block %q: recorded target range %d..%d does not start with the block's text but with %q", ptree.Clip(v, 60), tgt.From.Index, tgt.To.Index, ptree.Clip(gen[tgt.From.Index:tgt.To.Index], 60))
			}
		}
	}
	// R9: an expression written inside a templ/css/script declaration is mapped
	// into that declaration. Checked for the start position of every expression
	// that has a map entry, including empty ones (script f(): the position
	// between the parentheses is the "just past the end" position of an empty
	// expression; it has no byte to compare, so this and the round trip are
	// what can be demanded of it).
	type decl struct{ src, tgt parser.Range }
	var decls []decl
	for _, n := range a.TF.Nodes {
		var r parser.Range
		switch n := n.(type) {
		case parser.HTMLTemplate:
			r = n.Range
		case parser.CSSTemplate:
			r = n.Range
		case parser.ScriptTemplate:
			r = n.Range
		default:
			continue
		}
		if tgt, ok := sm.SymbolTargetRangeFromSource(r.From.Line, r.From.Col); ok && posOK(gl, tgt.From) && posOK(gl, tgt.To) {
			decls = append(decls, decl{r, tgt})
		}
	}
	for _, x := range items.Exprs {
		k := int(x.E.Range.From.Index)
		blank := strings.TrimSpace(x.E.Value) == ""
		if k < 0 || k > len(src) || blank && (inside[k] || x.E.Range == (parser.Range{})) {
			continue
		}
		for _, d := range decls {
			if int64(k) < d.src.From.Index || int64(k) > d.src.To.Index {
				continue
			}
			line, col := sl.Pos(k)
			tp, ok := sm.TargetPositionFromSource(uint32(line), uint32(col))
			if !ok {
				break
			}
			if blank {
				st.BlankMapped++
			}
			if tp.Index < d.tgt.From.Index || tp.Index > d.tgt.To.Index || !posOK(gl, tp) {
				alarm("outside-declaration", x.Slot, "expression %q at source %d:%d lies in the declaration at source %d:%d (generated %d..%d) but maps to generated %v", ptree.Clip(x.E.Value, 40), line, col, d.src.From.Line, d.src.From.Col, d.tgt.From.Index, d.tgt.To.Index, tp)
			} else if blank {
				if sp, ok := sm.SourcePositionFromTarget(tp.Line, tp.Col); !ok || sp != parser.NewPosition(int64(k), uint32(line), uint32(col)) {
					alarm("roundtrip", x.Slot, "empty expression at source %d:%d (index %d) maps to target %d:%d which maps back to %v (ok=%v)", line, col, k, tp.Line, tp.Col, sp, ok)
				}
			}
			break
		}
	}
	sort.Slice(alarms, func(i, j int) bool {
		if alarms[i].Kind != alarms[j].Kind {
			return alarms[i].Kind < alarms[j].Kind
		}
		if alarms[i].Slot != alarms[j].Slot {
			return alarms[i].Slot < alarms[j].Slot
		}
		return alarms[i].Msg < alarms[j].Msg
	})
	return alarms, st
}

func lineOf(s string, l *ptree.Lines, idx int) string {
	ln, _ := l.Pos(idx)
	end := len(s)
	if ln+1 < len(l.Starts) {
		end = l.Starts[ln+1] - 1
	}
	return s[l.Starts[ln]:end]
}

// funcName extracts the declared name from a templ/css signature
// ("(r Recv) Name(params)") with go/parser, independently of the templ parser.
func funcName(sig string) string {
	f, err := goparser.ParseFile(token.NewFileSet(), "", "package p\nfunc "+sig+" {}", goparser.SkipObjectResolution)
	if err != nil {
		return ""
	}
	for _, d := range f.Decls {
		if fd, ok := d.(*ast.FuncDecl); ok {
			return fd.Name.Name
		}
	}
	return ""
}

func hasDecl(block string) bool {
	f, err := goparser.ParseFile(token.NewFileSet(), "", "package p\n"+block, goparser.SkipObjectResolution)
	return err == nil && len(f.Decls) > 0
}
