// Package c07 checks the source map produced by generator.Generate: every
// byte of every Go expression of an accepted template maps to the same byte
// of the generated text (see oracle.go for the rules).
package c07

import (
	"fmt"
	"math/rand"
	"sort"
	"sync"
	"time"
	"unicode/utf8"

	"verif/checks/ptree"
	"verif/core"
)

// Case is one program; it is also the replay format.
type Case struct {
	Name string
	Src  string
}

// requiredSlots are the syntactic slots of the property statement; each must
// be observed at least once in an accepted program or the run is inconclusive.
var requiredSlots = []string{
	"Package.Expression", "HeaderGo.Expression", "TemplateFileGoExpression.Expression",
	"HTMLTemplate.Expression", "CSSTemplate.Expression", "ScriptTemplate.Name", "ScriptTemplate.Parameters",
	"IfExpression.Expression", "ElseIfExpression.Expression", "ForExpression.Expression",
	"SwitchExpression.Expression", "CaseExpression.Expression", "StringExpression.Expression",
	"ExpressionAttribute[other].Expression", "ExpressionAttribute[class].Expression", "ExpressionAttribute[style].Expression",
	"ExpressionAttribute[href].Expression", "ExpressionAttribute[on*].Expression",
	"BoolExpressionAttribute.Expression", "SpreadAttributes.Expression", "ConditionalAttribute.Expression",
	"TemplElementExpression.Expression", "TemplElementExpression[block].Expression", "CallTemplateExpression.Expression",
	"GoCode.Expression", "ScriptGoCode.Expression", "CSSValue.Expression",
	// attributes of <script> and raw (<style>) elements take other generator paths
	"ExpressionAttribute[other]@script.Expression", "ExpressionAttribute[class]@script.Expression", "ExpressionAttribute[style]@script.Expression",
	"ExpressionAttribute[href]@script.Expression", "ExpressionAttribute[on*]@script.Expression", "BoolExpressionAttribute@script.Expression",
	"SpreadAttributes@script.Expression", "ConditionalAttribute@script.Expression",
	"ExpressionAttribute[other]@raw.Expression", "ExpressionAttribute[class]@raw.Expression", "ExpressionAttribute[style]@raw.Expression",
	"ExpressionAttribute[href]@raw.Expression", "ExpressionAttribute[on*]@raw.Expression", "BoolExpressionAttribute@raw.Expression",
	"SpreadAttributes@raw.Expression", "ConditionalAttribute@raw.Expression",
}

// fixed programs: hand-written layouts that the random generator reaches
// rarely, and the canonical witnesses of earlier findings (always re-run).
var fixed = []Case{
	{"fixed/class", "package x\n\ntempl x() {\n<div class={ x }></div>\n}\n"},
	{"fixed/class-after-header", "// héader\npackage x\n\ntempl x() {\n\t<div class={ \"a\", templ.KV(\"b\", x) }>{ x }</div>\n}\n"},
	{"fixed/class-conditional", "package x\n\ntempl x() {\n\t<div\n\t\tif x {\n\t\t\tclass={ y }\n\t\t}\n\t></div>\n}\n"},
	{"fixed/wide-before", "package x\n\ntempl x(s string) {\n\t<p title=\"世界\" data-x={ s }>日本語 🙂 { s + \"é\" } ü{ s }</p>\n}\n"},
	{"fixed/multiline", "package x\n\ntempl x(s string) {\n\t{ fmt.Sprintf(\n\t\t\"%s-é\",\n\t\ts,\n\t) }\n\tif f(\n\t\ts,\n\t) {\n\t\t@c(\n\t\t\ts,\n\t\t)\n\t}\n}\n"},
	{"fixed/crlf", "package x\r\n\r\ntempl x(s string) {\r\n\t<p>{ f(\r\n\t\ts,\r\n\t) }</p>\r\n}\r\n"},
	{"fixed/go-blocks", "//go:build x\n\n// Cömment\npackage x\n\nimport \"fmt\"\n\nvar ü = \"é\"\n\ntempl x() {\n\t{ ü }\n}\n\nfunc f() string {\n\treturn \"世\"\n}\n\n// trailing\n"},
	{"fixed/css-script", "package x\n\ncss c(é string) {\n\tcolor: { é };\n\tmargin: 0;\n}\n\nscript s(a string, b int) {\n\tconsole.log(a, b);\n}\n\ntempl x() {\n\t<div class={ c(\"ü\") } onclick={ s(\"é\", 1) }>x</div>\n\t<script>\n\t\tconst v = {{ \"é\" }}; const w = \"{{ f() }}\";\n\t</script>\n}\n"},
	{"fixed/script-attrs", "package x\n\ntempl x(s string) {\n\t<script class={ \"é\", s } style={ s } src={ f(\n\t\ts,\n\t) } onload={ h(s) } async?={ b } { attrs... }\n\t\tif s != \"\" {\n\t\t\tclass={ s }\n\t\t\tdata-x={ s }\n\t\t} else {\n\t\t\tid={ \"ü\" + s }\n\t\t}\n\t>\n\t\tconst v = {{ s }};\n\t</script>\n}\n"},
	{"fixed/style-attrs", "package x\n\ntempl x(s string) {\n\t<style class={ \"é\", s } style={ s } href={ f(\n\t\ts,\n\t) } onload={ h(s) } disabled?={ b } { attrs... }\n\t\tif s != \"\" {\n\t\t\tclass={ s }\n\t\t\tdata-x={ s }\n\t\t} else {\n\t\t\tid={ \"ü\" + s }\n\t\t}\n\t>\n\t\tp { color: red; }\n\t</style>\n}\n"},
	{"fixed/void-attrs", "package x\n\ntempl x(s string) {\n\t<input class={ \"é\", s } style={ s } value={ f(\n\t\ts,\n\t) } onchange={ h(s) } checked?={ b } { attrs... }\n\t\tif s != \"\" {\n\t\t\tclass={ s }\n\t\t} else {\n\t\t\tid={ \"ü\" + s }\n\t\t}\n\t/>\n\t<div class={ s } { attrs... }/>\n\t<br class={ s }>\n}\n"},
	{"fixed/empty-expressions", "package x\n\nscript ping() {\n\tconsole.log(1);\n}\n\ncss c() {\n\tcolor: red;\n}\n\ntempl x() {\n\t<p a={ } b={} onclick={ ping() }>{ }</p>\n}\n\nscript pong(  ) {\n\tconsole.log(2);\n}\n"},
	{"fixed/same-line-templates", "package x\n\ntempl a() {<p>a</p>}templ b() {<p>b</p>}\n"},
}

type result struct {
	cs     Case
	stage  string
	alarms []ptree.Alarm
	st     Stats
}

func runCase(cs Case) result {
	res := result{cs: cs}
	if !utf8.ValidString(cs.Src) {
		res.stage = "invalid-utf8"
		return res
	}
	a, stage, _ := ptree.Accept(cs.Src)
	res.stage = stage
	if a == nil {
		return res
	}
	if a.TF.Package.Expression.Value == "" {
		// ParseString tolerates a missing package clause; such a file is not a
		// well-formed templ file (the generated Go cannot compile).
		res.stage = "no-package-clause"
		return res
	}
	func() {
		defer func() {
			if r := recover(); r != nil {
				res.alarms = append(res.alarms, ptree.Alarm{Kind: "oracle-panic", Slot: "harness", Msg: fmt.Sprint(r)})
			}
		}()
		res.alarms, res.st = CheckSourceMap(a)
	}()
	return res
}

// hasKind is the reduction predicate: the candidate is still accepted and
// still raises an alarm of the given kind.
func hasKind(src, kind string) bool {
	for _, al := range runCase(Case{Src: src}).alarms {
		if al.Kind == kind {
			return true
		}
	}
	return false
}

func Run(c *core.Ctx) {
	c.Rule = "cases = templ files accepted by the generate pipeline (parser.ParseString + generator.Generate + go/format): repository .templ files, parser test data and table-test inputs (raw/wrapped in a template), their CRLF and multi-byte-insertion variants, fixed hand-written layouts and programs from a seeded generator that puts an expression in every syntactic slot; oracle = rules R1-R8 of checks/c07/oracle.go applied to every rune-start byte of every expression; non-trivial = accepted program with at least one multi-line or multi-byte expression (distinct by source hash)"
	c.Assume("source-map coordinates are (0-based line, BYTE column) keyed at rune starts (read from parser/v2/sourcemap.go and a-h/parse); the generated text meant by the property is generator.Generate's own output (what the LSP hands to gopls), gofmt is only the acceptance filter")
	c.Assume("a well-formed templ file has a package clause (ParseString also accepts files without one; they are skipped and counted)")
	c.Assume("templates are valid UTF-8 (the range writer re-encodes invalid bytes, so byte identity is only defined for valid input)")
	if c.ReplayFile != "" {
		var cs Case
		c.LoadReplay(&cs)
		res := runCase(cs)
		c.Eval(1)
		c.NontrivialN(2)
		fmt.Printf("replay: stage=%s alarms=%d\n", res.stage, len(res.alarms))
		for _, al := range res.alarms {
			fmt.Println("  ", al)
			c.Violate(al.Kind+"\n"+cs.Src, al.String(), cs)
		}
		return
	}

	// ---- case list (value-determined), produced and checked in chunks so
	// that the thorough tier never holds all programs and results at once.
	var first []Case
	first = append(first, fixed...)
	mr := c.Rand("corpus-mutants")
	for _, s := range append(ptree.LoadCorpus(c.Repo), ptree.FixedForms()...) {
		txt := s.Text
		if !s.Whole {
			txt = ptree.Wrap(txt)
		}
		first = append(first, Case{s.Name, txt}, Case{s.Name + "+crlf", ptree.CRLF(txt)})
		for k := 0; k < c.Pick(2, 6); k++ {
			first = append(first, Case{fmt.Sprintf("%s+wide%d", s.Name, k), ptree.WideBefore(mr, txt)})
		}
		// structure-aware mutants; most are rejected, the accepted ones are
		// layouts nobody wrote by hand
		for k := 0; k < c.Pick(8, 60); k++ {
			first = append(first, Case{fmt.Sprintf("%s+mut%d", s.Name, k), ptree.Mutate(mr, txt)})
		}
	}
	nGen := c.Pick(12000, 150000)
	gr := c.Rand("programs")
	const chunk = 15000

	stages := map[string]int{}
	slots := map[string][3]int{}
	fx := map[string]string{}
	var tot Stats
	var fails []failing
	accepted, acceptedGen, total := 0, 0, 0
	for g := -1; g*chunk < nGen; g++ {
		var cases []Case
		if g < 0 {
			cases = first
		} else {
			for i := g * chunk; i < nGen && i < (g+1)*chunk; i++ {
				cases = append(cases, Case{fmt.Sprintf("gen/%d", i), ptree.GenProgram(rand.New(rand.NewSource(gr.Int63())))})
			}
		}
		total += len(cases)
		results := make([]result, len(cases))
		var wg sync.WaitGroup
		idx := make(chan int, 64)
		for w := 0; w < 16; w++ {
			wg.Add(1)
			go func() {
				defer wg.Done()
				for i := range idx {
					results[i] = runCase(cases[i])
				}
			}()
		}
		done := make(chan struct{})
		go func() {
			for i := range cases {
				idx <- i
			}
			close(idx)
			wg.Wait()
			close(done)
		}()
		select {
		case <-done:
		case <-time.After(30 * time.Minute):
			core.Infra("watchdog: source-map cases did not finish (a parse or generate call hangs?)")
		}
		for i, r := range results {
			if g < 0 && i < len(fixed) {
				fx[r.cs.Name] = r.stage
			}
			stages[r.stage]++
			if r.stage != "ok" {
				continue
			}
			accepted++
			if g >= 0 {
				acceptedGen++
			}
			c.Eval(r.st.Positions + r.st.EOLs + r.st.Symbols)
			if r.st.MultiLine+r.st.MultiByte > 0 {
				c.NontrivialStr(r.cs.Src)
			}
			tot.Exprs += r.st.Exprs
			tot.Positions += r.st.Positions
			tot.EOLs += r.st.EOLs
			tot.MidRune += r.st.MidRune
			tot.MultiLine += r.st.MultiLine
			tot.MultiByte += r.st.MultiByte
			tot.MBBefore += r.st.MBBefore
			tot.Symbols += r.st.Symbols
			tot.GoBlocksNoSymbol += r.st.GoBlocksNoSymbol
			tot.MapEntries += r.st.MapEntries
			tot.StrayEqual += r.st.StrayEqual
			tot.StrayNoSource += r.st.StrayNoSource
			tot.BlankMapped += r.st.BlankMapped
			for k, v := range r.st.Slots {
				s := slots[k]
				s[0], s[1], s[2] = s[0]+v[0], s[1]+v[1], s[2]+v[2]
				slots[k] = s
			}
			// One root cause usually raises several kinds of alarm in a program;
			// only the highest-priority kind of each family (position tables,
			// symbol ranges) is turned into a witness.
			for _, fam := range [][]string{positionKinds, symbolKinds} {
				if al, ok := firstOf(r.alarms, fam); ok {
					fails = append(fails, failing{r.cs, al.Kind, al.Slot})
				}
			}
			if len(r.alarms) == 0 && r.st.MultiLine > 0 && r.st.MultiByte > 0 && len(r.cs.Src) < 500 {
				c.Sample(map[string]any{"name": r.cs.Name, "src": r.cs.Src, "expressions": r.st.Exprs, "positions_checked": r.st.Positions, "verdict": "held"})
			}
		}
	}
	c.Set("t_run_cases_s", time.Since(c.Start).Seconds())
	c.Set("fixed_cases", fx)
	c.Set("programs_total", total)
	c.Set("programs_generated", nGen)
	c.Set("programs_accepted", accepted)
	c.Set("programs_accepted_generated", acceptedGen)
	c.Set("stages", stages)
	c.Set("expressions_checked", tot.Exprs)
	c.Set("positions_checked", tot.Positions)
	c.Set("end_of_line_positions_checked", tot.EOLs)
	c.Set("mid_rune_bytes_not_demanded", tot.MidRune)
	c.Set("multi_line_expressions", tot.MultiLine)
	c.Set("multi_byte_expressions", tot.MultiByte)
	c.Set("expressions_after_multibyte_text_on_line", tot.MBBefore)
	c.Set("symbol_ranges_checked", tot.Symbols)
	c.Set("go_blocks_without_symbol_range_not_demanded", tot.GoBlocksNoSymbol)
	c.Set("map_entries_scanned", tot.MapEntries)
	c.Set("stray_entries_equal_byte", tot.StrayEqual)
	c.Set("stray_entries_without_source_position", tot.StrayNoSource)
	c.Set("empty_expressions_with_entry_checked", tot.BlankMapped)
	if tot.BlankMapped == 0 {
		c.Inconclusive("no accepted program carried a mapped empty expression (script f() …)")
	}
	slotOut := map[string]any{}
	for k, v := range slots {
		slotOut[k] = map[string]int{"expressions": v[0], "multi_line": v[1], "multi_byte": v[2]}
	}
	c.Set("slots", slotOut)
	for _, s := range requiredSlots {
		if slots[s][0] == 0 {
			c.Inconclusive("no accepted program carried an expression in slot " + s)
		}
	}

	// ---- canonical witnesses: per (kind, slot) reduce the two smallest
	// failing programs with "still accepted and still an alarm of this kind".
	sort.SliceStable(fails, func(a, b int) bool {
		la, lb := len(fails[a].cs.Src), len(fails[b].cs.Src)
		if la != lb {
			return la < lb
		}
		return fails[a].cs.Src < fails[b].cs.Src
	})
	perGroup := map[string]int{}
	type job struct {
		f   failing
		key string
		red string
	}
	var jobs []*job
	for _, f := range fails {
		g := f.kind + "|" + f.slot
		if perGroup[g] >= 2 {
			continue
		}
		perGroup[g]++
		jobs = append(jobs, &job{f: f})
	}
	c.Set("failing_programs", func() int {
		m := map[string]bool{}
		for _, f := range fails {
			m[f.cs.Src] = true
		}
		return len(m)
	}())
	c.Set("alarm_groups", perGroupKeys(fails))
	var rw sync.WaitGroup
	sem := make(chan struct{}, 16)
	for _, j := range jobs {
		rw.Add(1)
		sem <- struct{}{}
		go func(j *job) {
			defer rw.Done()
			defer func() { <-sem }()
			j.red = ptree.Reduce(j.f.cs.Src, func(s string) bool { return hasKind(s, j.f.kind) })
			j.key = j.f.kind + "\n" + j.red
		}(j)
	}
	rw.Wait()
	c.Set("t_reduce_s", time.Since(c.Start).Seconds())
	for _, j := range jobs {
		msg := ""
		for _, al := range runCase(Case{Src: j.red}).alarms {
			if al.Kind == j.f.kind {
				msg = al.String()
				break
			}
		}
		c.Violate(j.key, fmt.Sprintf("source map wrong for template %s (reduced from %s): %s", core.Q(j.red), j.f.cs.Name, msg), Case{Name: "reduced:" + j.f.cs.Name, Src: j.red})
	}
}

var positionKinds = []string{"oracle-panic", "mismatch", "outside-declaration", "uncovered", "unmapped", "out-of-source", "target-out-of-range", "target-linecol",
	"nonconsecutive", "roundtrip", "eol-unmapped", "eol-position", "eol-roundtrip", "stray"}
var symbolKinds = []string{"gen-unparsable", "symbol-missing", "symbol-range", "symbol-enclose"}

func firstOf(alarms []ptree.Alarm, kinds []string) (ptree.Alarm, bool) {
	for _, k := range kinds {
		for _, al := range alarms {
			if al.Kind == k {
				return al, true
			}
		}
	}
	return ptree.Alarm{}, false
}

type failing struct {
	cs   Case
	kind string
	slot string
}

func perGroupKeys(fs []failing) map[string]int {
	m := map[string]int{}
	for _, f := range fs {
		m[f.kind+" "+f.slot]++
	}
	return m
}
