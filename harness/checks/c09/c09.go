// Package c09 checks "formatting is idempotent".
package c09

import (
	"fmt"
	"strings"
	"sync"

	"verif/core"
	"verif/corpus"
	"verif/gen/tsrc"
)

// Check is the C09 oracle for one program x (the trusted base):
//
//  1. x counts only if `templ generate` accepts it: parse + generate + gofmt.
//  2. F = fmt(x); fmt(F) must equal F byte for byte.
//  3. On failure the formatter is iterated (up to 6 passes over its own
//     output) to describe the failure: "converges" (a later pass is a fixed
//     point), "grows" (all 6 passes succeed, each longer than the one before),
//     "unstable" (neither, or a later pass fails), or "error" (the formatter's
//     first output cannot be formatted again).
func Check(src string) tsrc.Outcome { return check(src, tsrc.Fmt, false) }

// CheckFile is the same oracle for `templ fmt <file>` (fmtcmd with a file
// name: imports.Process rewrites the import section between parsing and
// writing): `templ fmt` followed by `templ fmt -fail` must agree. When the
// command refuses a file (goimports cannot process the generated code) it
// writes nothing, so there is nothing to compare: counted as fmt_refused.
func CheckFile(src string) tsrc.Outcome { return check(src, tsrc.FmtFile, true) }

func check(src string, format func(string) (string, error), named bool) tsrc.Outcome {
	if _, err := tsrc.Gen(src); err != nil {
		return tsrc.Outcome{}
	}
	F, err := format(src)
	if err != nil && named {
		return tsrc.Outcome{Accepted: true, Note: "fmt_refused"}
	}
	if err != nil {
		return tsrc.Outcome{Accepted: true, Changed: true, Class: "error", Detail: fmt.Sprintf("templ fmt fails on an accepted file: %v", err)}
	}
	o := tsrc.Outcome{Accepted: true, Changed: F != src}
	F2, err := format(F)
	if err != nil {
		o.Class = "error"
		o.Detail = fmt.Sprintf("fmt output cannot be formatted again (%v); fmt(x) = %s", err, core.Q(clip(body(F), 300)))
		return o
	}
	if F2 == F {
		return o
	}
	cur := F2
	grows := len(F2) > len(F)
	pass := 2 // cur is the output of pass 2
	conv, broke := 0, false
	for pass < 6 {
		next, err := format(cur)
		if err != nil {
			broke = true
			break
		}
		pass++
		if next == cur {
			conv = pass - 1
			break
		}
		if len(next) <= len(cur) {
			grows = false
		}
		cur = next
	}
	switch {
	case conv > 0:
		o.Class = "converges"
		o.Detail = fmt.Sprintf("not idempotent, converges at pass %d", conv)
	case broke:
		o.Class = "unstable"
		o.Detail = fmt.Sprintf("not idempotent, the output of pass %d cannot be formatted any more", pass)
	case grows:
		o.Class = "grows"
		o.Detail = fmt.Sprintf("not idempotent, grows on every one of %d passes", pass)
	default:
		o.Class = "unstable"
		o.Detail = fmt.Sprintf("not idempotent, no fixed point within %d passes", pass)
	}
	o.Detail += fmt.Sprintf("; fmt(x) = %s, fmt(fmt(x)) = %s", core.Q(clip(body(F), 300)), core.Q(clip(body(F2), 300)))
	return o
}

func body(src string) string {
	if b, ok := tsrc.BodyOf(src); ok {
		return b
	}
	return src
}

func clip(s string, n int) string {
	if len(s) > n {
		return s[:n] + "…"
	}
	return s
}

// CheckFail is the oracle for the command's own verdict. The file is put into
// a scratch directory and formatted the way the CLI formats a directory
// (`templ fmt <dir>`, fmtcmd.Run with Files); then `templ fmt -fail <dir>` runs:
//
//   - if the second run leaves the bytes as the first run left them, -fail must
//     succeed (class "fails-unchanged": CI keeps failing on a formatted file);
//   - if the second run changes the bytes, -fail must fail ("passes-changed").
//
// Files the first run refuses are skipped (fmt_refused). Whether the bytes
// change at all on the second run is CheckFile's question, not this one's.
func CheckFail(src string) tsrc.Outcome {
	if _, err := tsrc.Gen(src); err != nil {
		return tsrc.Outcome{}
	}
	v, err := tsrc.FmtDirVerdict(src)
	if err != nil {
		return tsrc.Outcome{Accepted: true, Note: "fmtfail_infrastructure"}
	}
	if v.Err1 != nil {
		return tsrc.Outcome{Accepted: true, Note: "fmt_refused"}
	}
	o := tsrc.Outcome{Accepted: true, Changed: v.After1 != src}
	switch {
	case v.After2 == v.After1 && v.Err2 != nil:
		o.Class = "fails-unchanged"
		o.Detail = fmt.Sprintf("after one `templ fmt` run the file is %s; `templ fmt -fail` leaves it byte-identical but fails: %v", core.Q(clip(v.After1, 300)), v.Err2)
	case v.After2 != v.After1 && v.Err2 == nil:
		o.Class = "passes-changed"
		o.Detail = fmt.Sprintf("`templ fmt -fail` succeeds although it rewrote the file: %s -> %s", core.Q(clip(v.After1, 300)), core.Q(clip(v.After2, 300)))
	case v.After2 == v.After1:
		o.Note = "fmtfail_passes_on_unchanged"
	default:
		o.Note = "fmtfail_fails_on_changed"
	}
	return o
}

// judgeDir is the C09 oracle of a directory job: every file must be what
// formatting it alone gives, and a second `templ fmt <dir>` must change nothing.
func judgeDir(j tsrc.DirJob, res tsrc.DirResult, single func(string) (string, error)) (string, string) {
	if res.Err1 != nil || res.Err2 != nil {
		return "run-error", fmt.Sprintf("templ fmt <dir> fails although every file formats alone: %v / %v", res.Err1, res.Err2)
	}
	for i, f := range j.Files {
		if alone, err := single(f.Src); err == nil && alone != res.After1[i] {
			return "not-single", fmt.Sprintf("file %d of %d (workers=%d) is %s after the run, formatted alone it is %s", i+1, len(j.Files), j.Workers, core.Q(clip(res.After1[i], 300)), core.Q(clip(alone, 300)))
		}
		if res.After2[i] != res.After1[i] {
			return "second-run-changes", fmt.Sprintf("file %d of %d (workers=%d): the second run rewrites %s as %s", i+1, len(j.Files), j.Workers, core.Q(clip(res.After1[i], 300)), core.Q(clip(res.After2[i], 300)))
		}
	}
	return "", ""
}

// CheckSave is the oracle of format-on-save for one whole file x:
//
//  1. x counts if `templ generate` accepts it and `templ fmt <file>` (CheckFile's
//     command) formats it; cli = its output. If the command refuses the file
//     the server must not edit it either (no edits), else class "edits-refused".
//  2. saved = the original text with the server's TextEdits applied by an LSP
//     client (tsrc.ApplyEdits). saved must equal cli      (else class "differs")
//  3. the server's own copy of the document must equal saved (else "server-copy")
//
// With saved == cli, "`templ fmt -fail` passes after one format-on-save" is
// exactly fmt(cli) == cli, which CheckFile / Check decide (and for which the
// known non-idempotent witnesses are listed); it is counted here, not judged again.
func CheckSave(src string) tsrc.Outcome {
	if _, err := tsrc.Gen(src); err != nil {
		return tsrc.Outcome{}
	}
	cli, cerr := tsrc.FmtFile(src)
	sv, err := tsrc.FormatOnSave(src)
	if err != nil {
		if cerr != nil {
			return tsrc.Outcome{Accepted: true, Note: "save_both_refused"}
		}
		return tsrc.Outcome{Accepted: true, Changed: true, Class: "server-error", Detail: fmt.Sprintf("templ fmt formats the file, textDocument/formatting fails: %v", err)}
	}
	shape := tsrc.EditShape(src, sv.Edits)
	if cerr != nil {
		if len(sv.Edits) == 0 {
			return tsrc.Outcome{Accepted: true, Note: "save_both_refused"}
		}
		return tsrc.Outcome{Accepted: true, Changed: true, Class: "edits-refused", Detail: fmt.Sprintf("templ fmt refuses the file (%v) but format-on-save edits it (%s)", cerr, shape)}
	}
	o := tsrc.Outcome{Accepted: true, Changed: sv.Text != src}
	saveStats.add(src, cli, shape)
	switch {
	case sv.Text != cli:
		o.Class = "differs"
		o.Detail = fmt.Sprintf("%s on a document of %d lines; the editor saves %s, templ fmt writes %s", shape, strings.Count(src, "\n")+1, core.Q(clip(sv.Text, 300)), core.Q(clip(cli, 300)))
	case sv.ServerCopy != sv.Text:
		o.Class = "server-copy"
		o.Detail = fmt.Sprintf("after formatting the server holds %s, the editor %s", core.Q(clip(sv.ServerCopy, 300)), core.Q(clip(sv.Text, 300)))
	default:
		if again, err := tsrc.FmtFile(sv.Text); err != nil || again != sv.Text {
			o.Note = "save_not_clean_because_fmt_not_idempotent"
		} else {
			o.Note = "save_clean_after_one_run"
		}
	}
	return o
}

// saveStats: how the line count of the sampled documents changes when
// formatted, and which edit shapes the server produced.
type saveStat struct {
	mu                       sync.Mutex
	jobs, shrink, grow, keep int
	shapes                   map[string]int
	seen                     map[string]bool
}

var saveStats = &saveStat{shapes: map[string]int{}, seen: map[string]bool{}}

func (s *saveStat) add(src, cli, shape string) {
	s.mu.Lock()
	defer s.mu.Unlock()
	if s.seen[src] { // reductions revisit programs; count each document once
		return
	}
	s.seen[src] = true
	s.jobs++
	a, b := strings.Count(src, "\n"), strings.Count(cli, "\n")
	switch {
	case b < a:
		s.shrink++
	case b > a:
		s.grow++
	default:
		s.keep++
	}
	s.shapes[shape]++
}

func (s *saveStat) report(c *core.Ctx) {
	s.mu.Lock()
	defer s.mu.Unlock()
	c.Set("save_jobs", s.jobs)
	c.Set("save_line_count_shrinks", s.shrink)
	c.Set("save_line_count_grows", s.grow)
	c.Set("save_line_count_kept", s.keep)
	c.Set("save_edit_shapes", s.shapes)
	if s.jobs > 0 && (s.shrink == 0 || s.grow == 0 || s.keep == 0) {
		c.Inconclusive("format-on-save workload did not contain shrinking, growing and line-count-preserving documents")
	}
}

// Weaker orders failure classes for the reducer: "unstable" (no fixed point,
// not monotonically growing) is what a program with a converging and a growing
// cause shows; the reduction may isolate either.
func Weaker(from, to string) bool { return from == "unstable" }

// Run is the C09 check.
func Run(c *core.Ctx) {
	c.Rule = "programs = every .templ file, formattestdata section and documentation code block found in the repository at run time + the complete adjacency matrix (22 node kinds^2 x 3 separators x 7 parent contexts, and every kind alone with 3x3 lead/trail whitespace) + attribute/expression/file spelling cells + seeded random compositions (depth<=4, random spellings) + token-level mutants of corpus files and cells; a program counts (evaluations) only if parse+generate+gofmt accept it; non-trivial = the formatter changes the text (fmt(x) != x), distinct by program text"
	c.Assume("`templ fmt` is modelled in-process as parser.ParseString -> TemplateFile.Write (the stdin path of fmtcmd; imports.Process is the identity when no file path is known)")
	r := tsrc.NewRunner(c, Check, "formatting is not idempotent")
	r.Weaker = Weaker
	r.Run()

	// the named-file path of templ fmt (imports.Process), bounded workload
	c.Assume("`templ fmt <file>` is driven through fmtcmd.Run with -stdin-filepath naming a file in a scratch module directory (same format function as the directory walk: parse, imports.Process, write); import cells only refer to standard-library packages and the templ module, so goimports resolves them without looking at the module cache")
	tsrc.FmtFileDir(corpus.Scratch("c09fmt"), c.Repo)
	rf := tsrc.NewRunner(c, CheckFile, "templ fmt <file> is not idempotent")
	rf.Weaker, rf.Mode, rf.KeyPrefix, rf.NoRename = Weaker, "fmtfile", "fmtfile:", true
	var progs []tsrc.Prog
	for _, cl := range tsrc.ImportCells() {
		progs = append(progs, tsrc.Prog{Origin: "impcell:" + cl.Name, Src: cl.Src})
	}
	for _, cl := range tsrc.CRLFCells() { // Windows / mixed line endings around verbatim regions
		progs = append(progs, tsrc.Prog{Origin: "crlfcell:" + cl.Name, Src: cl.Src})
	}
	rf.RunFile(progs)

	// the CLI's own verdict: `templ fmt <dir>` then `templ fmt -fail <dir>`
	rv := tsrc.NewRunner(c, CheckFail, "templ fmt -fail disagrees with the bytes")
	rv.Mode, rv.KeyPrefix, rv.NoRename = "fmtfail", "fmtfail:", true
	vprogs := append([]tsrc.Prog{}, progs...)
	for _, cl := range tsrc.SaveCells() {
		vprogs = append(vprogs, tsrc.Prog{Origin: "savecell:" + cl.Name, Src: cl.Src})
	}
	rv.RunFile(vprogs)

	// several files in one `templ fmt <dir>` run, and a second run over the same directory
	tsrc.RunDirJobs(c, "templ fmt <dir> is not stable", func(src string) bool { return CheckFile(src).Class == "" }, judgeDir)

	// format-on-save through the LSP server
	c.Assume("format-on-save is driven in-process: proxy.NewServer without gopls, document opened with TemplSource.Set, Server.Formatting called with an editor stub; the returned TextEdits are applied to the original text by the harness's own LSP client model (lines split at LF, UTF-16 characters, positions beyond the end clamp) — never by proxy.Document")
	rs := tsrc.NewRunner(c, CheckSave, "format-on-save disagrees with templ fmt")
	rs.Mode, rs.KeyPrefix, rs.NoRename = "save", "save:", true
	var sprogs []tsrc.Prog
	for _, cl := range tsrc.SaveCells() {
		sprogs = append(sprogs, tsrc.Prog{Origin: "savecell:" + cl.Name, Src: cl.Src})
	}
	for _, cl := range tsrc.ImportCells() {
		sprogs = append(sprogs, tsrc.Prog{Origin: "impcell:" + cl.Name, Src: cl.Src})
	}
	// a PRNG sample of the matrix (identifiers only: goimports has nothing to look up), each in one of five spellings
	sr := c.Rand("save")
	matrix := tsrc.Matrix()
	for i, n := 0, c.Pick(1500, 8000); i < n; i++ {
		cl := matrix[sr.Intn(len(matrix))]
		v := sr.Intn(5)
		sprogs = append(sprogs, tsrc.Prog{Origin: fmt.Sprintf("savematrix:%s/v%d", cl.Name, v), Src: tsrc.SaveVariant(cl.Src, v)})
	}
	rs.RunFile(sprogs)
	saveStats.report(c)
}
