package c17

import (
	"context"
	"fmt"
	"os"
	"path/filepath"
	"strings"

	"github.com/a-h/templ/cmd/templ/lspcmd/proxy"
	"github.com/a-h/templ/generator"
	lsp "github.com/a-h/templ/lsp/protocol"
	parser "github.com/a-h/templ/parser/v2"
	"verif/core"
)

// Server-level sessions: the editor's notifications (didOpen, didChange with
// one to three content changes, didClose followed by a new didOpen) go through
// the real proxy.Server, with a recording stand-in for gopls behind it and a
// stand-in editor that accepts diagnostics. After every notification the
// server's copy must equal the editor's buffer (byte-splice reference), and
// whenever that buffer is a template the parser and generator accept, the Go
// text last handed to gopls must be what generating from the buffer gives.

type c17SrvOp struct {
	Kind  string // open | change | close
	Text  string // open: the document the editor opens
	Edits []c17Edit
}

type c17SrvCase struct {
	// URI is the document URI as the editor spells it ("" = c17URIs[0]); with
	// Preload it is ignored: the document is <workspace>/x.templ.
	URI string
	// Preload: the server is created with workspace preloading on, Initialize
	// and Initialized are sent with a workspace folder that contains x.templ
	// with the text Disk, and only then the editor opens its own buffer.
	Preload bool
	Disk    string
	Ops     []c17SrvOp
}

// URI spellings editors produce: plain, percent-escaped space / non-ASCII /
// drive-letter colon, characters that need no escaping.
var c17URIs = []string{
	"file:///ws/x.templ",
	"file:///ws/my%20dir/x.templ",
	"file:///c%3A/ws/x.templ",
	"file:///ws/caf%C3%A9/x.templ",
	"file:///ws/a+b/x%2Bx.templ",
	"file:///C:/Users/me/x.templ",
}

func c17GoURIOf(u string) string { return strings.TrimSuffix(u, ".templ") + "_templ.go" }

var c17Workspace string

// c17WorkspaceDir returns the scratch workspace of preload sessions.
func c17WorkspaceDir() string {
	if c17Workspace == "" {
		d, err := os.MkdirTemp("", "verif-c17-ws-")
		if err != nil {
			core.Infra("C17: cannot create scratch workspace: %v", err)
		}
		c17Workspace = d
		core.AtExit(func() { os.RemoveAll(d) })
	}
	return c17Workspace
}

type c17Gopls struct {
	lsp.Server
	text   map[string]string
	opened map[string]int
	log    []string
}

func (g *c17Gopls) Initialize(ctx context.Context, p *lsp.InitializeParams) (*lsp.InitializeResult, error) {
	return &lsp.InitializeResult{ServerInfo: &lsp.ServerInfo{Name: "gopls"}}, nil
}

func (g *c17Gopls) Initialized(ctx context.Context, p *lsp.InitializedParams) error { return nil }

func (g *c17Gopls) DidChangeWatchedFiles(ctx context.Context, p *lsp.DidChangeWatchedFilesParams) error {
	return nil
}

func (g *c17Gopls) DidOpen(ctx context.Context, p *lsp.DidOpenTextDocumentParams) error {
	g.text[string(p.TextDocument.URI)] = p.TextDocument.Text
	g.opened[string(p.TextDocument.URI)]++
	return nil
}

func (g *c17Gopls) DidChange(ctx context.Context, p *lsp.DidChangeTextDocumentParams) error {
	for _, ch := range p.ContentChanges {
		if ch.Range != nil {
			g.log = append(g.log, "ranged change forwarded to gopls")
			continue
		}
		g.text[string(p.TextDocument.URI)] = ch.Text
	}
	return nil
}

func (g *c17Gopls) DidClose(ctx context.Context, p *lsp.DidCloseTextDocumentParams) error {
	delete(g.text, string(p.TextDocument.URI))
	return nil
}

type c17Editor struct{ lsp.Client }

func (c17Editor) PublishDiagnostics(ctx context.Context, p *lsp.PublishDiagnosticsParams) error {
	return nil
}

// c17Generate is the reference pipeline: what the user sees -> Go text.
func c17Generate(uri, text string) (string, bool) {
	tf, err := parser.ParseString(text)
	if err != nil {
		return "", false
	}
	tf.Filepath = uri
	if _, err := parser.Diagnose(tf); err != nil {
		return "", false
	}
	w := new(strings.Builder)
	if _, err := generator.Generate(tf, w); err != nil {
		return "", false
	}
	return w.String(), true
}

type c17SrvStats struct {
	ops, changes, opens, closes, parseOK, parseBad, openBad, ranged int
	preload, preloadDiffers, watched, crDocs                        int
	uris                                                            map[string]int
}

func c17RunServer(cs c17SrvCase, st *c17SrvStats) (msg string, failedAt int) {
	defer func() {
		if r := recover(); r != nil {
			msg = fmt.Sprintf("panic: %v", r)
		}
	}()
	g := &c17Gopls{text: map[string]string{}, opened: map[string]int{}}
	s := proxy.NewServer(c17Log, g, proxy.NewSourceMapCache(), proxy.NewDiagnosticCache(), !cs.Preload)
	ctx := lsp.WithClient(context.Background(), c17Editor{})
	want, open := "", false
	c17URI := cs.URI
	if c17URI == "" {
		c17URI = c17URIs[0]
	}
	if cs.Preload {
		dir := c17WorkspaceDir()
		if err := os.WriteFile(filepath.Join(dir, "x.templ"), []byte(cs.Disk), 0o644); err != nil {
			core.Infra("C17: cannot write scratch workspace file: %v", err)
		}
		c17URI = "file://" + dir + "/x.templ"
		if _, err := s.Initialize(ctx, &lsp.InitializeParams{WorkspaceFolders: []lsp.WorkspaceFolder{{URI: "file://" + dir, Name: "ws"}}}); err != nil {
			return fmt.Sprintf("initialize returned error: %v", err), 0
		}
		if err := s.Initialized(ctx, &lsp.InitializedParams{}); err != nil {
			return fmt.Sprintf("initialized returned error: %v", err), 0
		}
		if st != nil {
			st.preload++
			if cs.Disk != "" && len(cs.Ops) > 0 && cs.Ops[0].Kind == "open" && cs.Ops[0].Text != cs.Disk {
				st.preloadDiffers++
			}
		}
	}
	c17GoURI := c17GoURIOf(c17URI)
	for i, op := range cs.Ops {
		failedAt = i
		switch op.Kind {
		case "open":
			if open {
				continue
			}
			if err := s.DidOpen(ctx, &lsp.DidOpenTextDocumentParams{TextDocument: lsp.TextDocumentItem{URI: lsp.DocumentURI(c17URI), LanguageID: "templ", Version: 1, Text: op.Text}}); err != nil {
				return fmt.Sprintf("op %d: didOpen returned error: %v", i, err), i
			}
			want, open = op.Text, true
			if st != nil {
				st.opens++
			}
		case "close":
			if !open {
				continue
			}
			if err := s.DidClose(ctx, &lsp.DidCloseTextDocumentParams{TextDocument: lsp.TextDocumentIdentifier{URI: lsp.DocumentURI(c17URI)}}); err != nil {
				return fmt.Sprintf("op %d: didClose returned error: %v", i, err), i
			}
			open = false
			if st != nil {
				st.closes++
			}
			continue
		case "watched":
			// workspace/didChangeWatchedFiles for the document's own file: another
			// program rewrote it on disk. An open document is what the editor shows,
			// so the server copy must stay equal to the editor's buffer.
			if !open || !cs.Preload {
				continue
			}
			if err := os.WriteFile(filepath.Join(c17WorkspaceDir(), "x.templ"), []byte(op.Text), 0o644); err != nil {
				core.Infra("C17: cannot write scratch workspace file: %v", err)
			}
			if err := s.DidChangeWatchedFiles(ctx, &lsp.DidChangeWatchedFilesParams{Changes: []*lsp.FileEvent{{Type: lsp.FileChangeTypeChanged, URI: lsp.DocumentURI(c17URI)}}}); err != nil {
				return fmt.Sprintf("op %d: didChangeWatchedFiles returned error: %v", i, err), i
			}
			if st != nil {
				st.watched++
			}
		case "change":
			if !open {
				continue
			}
			var evs []lsp.TextDocumentContentChangeEvent
			for _, e := range op.Edits {
				evs = append(evs, lsp.TextDocumentContentChangeEvent{Range: c17Range(e), Text: e.Text})
				want = spliceRef(want, e)
				if st != nil && !e.Full {
					st.ranged++
				}
			}
			p := &lsp.DidChangeTextDocumentParams{ContentChanges: evs}
			p.TextDocument.URI = lsp.DocumentURI(c17URI)
			p.TextDocument.Version = int32(i + 2)
			if err := s.DidChange(ctx, p); err != nil {
				return fmt.Sprintf("op %d: didChange returned error: %v", i, err), i
			}
			if st != nil {
				st.changes++
			}
		}
		if st != nil {
			st.ops++
		}
		d, ok := s.TemplSource.Get(c17URI)
		if !ok {
			return fmt.Sprintf("op %d (%s): the server holds no copy of the open document; editor has %q", i, op.Kind, want), i
		}
		if got := d.String(); got != want {
			return fmt.Sprintf("op %d (%s): server copy %q, editor has %q", i, op.Kind, got, want), i
		}
		if goWant, ok := c17Generate(c17URI, want); ok {
			if st != nil {
				st.parseOK++
			}
			if got := g.text[c17GoURI]; got != goWant {
				return fmt.Sprintf("op %d (%s): the editor's buffer %q is a valid template, but the Go text handed to gopls (%d bytes) is not what generating from it gives (%d bytes); first difference at byte %d", i, op.Kind, want, len(got), len(goWant), firstDiff(got, goWant)), i
			}
		} else if st != nil {
			st.parseBad++
			if op.Kind == "open" {
				st.openBad++
			}
		}
		if len(g.log) > 0 {
			return fmt.Sprintf("op %d: %s", i, g.log[0]), i
		}
	}
	return "", -1
}

func firstDiff(a, b string) int {
	n := len(a)
	if len(b) < n {
		n = len(b)
	}
	for i := 0; i < n; i++ {
		if a[i] != b[i] {
			return i
		}
	}
	return n
}

func c17SrvKey(cs c17SrvCase) string {
	var sb strings.Builder
	sb.WriteString("Server")
	if cs.Preload {
		fmt.Fprintf(&sb, " preloaded(%q)", cs.Disk)
	} else if cs.URI != "" && cs.URI != c17URIs[0] {
		fmt.Fprintf(&sb, " uri=%s", cs.URI)
	}
	for _, op := range cs.Ops {
		switch op.Kind {
		case "open":
			fmt.Fprintf(&sb, " open(%q)", op.Text)
		case "close":
			sb.WriteString(" close")
		case "watched":
			fmt.Fprintf(&sb, " watched(%q)", op.Text)
		default:
			sb.WriteString(" change[")
			for j, e := range op.Edits {
				if j > 0 {
					sb.WriteString(",")
				}
				if e.Full {
					fmt.Fprintf(&sb, "full(%q)", e.Text)
				} else {
					fmt.Fprintf(&sb, "%d:%d-%d:%d(%q)", e.SL, e.SC, e.EL, e.EC, e.Text)
				}
			}
			sb.WriteString("]")
		}
	}
	return sb.String()
}

// c17SrvReduce cuts the session after the failing notification and then drops
// earlier notifications one at a time while it keeps failing.
func c17SrvReduce(cs c17SrvCase) c17SrvCase {
	_, at := c17RunServer(cs, nil)
	if at >= 0 && at+1 < len(cs.Ops) {
		cs.Ops = cs.Ops[:at+1]
	}
	for i := len(cs.Ops) - 2; i >= 0 && len(cs.Ops) > 1; i-- {
		try := cs
		try.Ops = append(append([]c17SrvOp{}, cs.Ops[:i]...), cs.Ops[i+1:]...)
		if m, _ := c17RunServer(try, nil); m != "" {
			cs = try
		}
	}
	return cs
}

var c17SrvDocs = []string{
	// accepted when opened
	"package main\n",
	"package main\n\ntempl x() {\n}\n",
	"package main\n\ntempl x() {\n\t<div>hi</div>\n}\n",
	"package main\n\ntempl x(name string) {\n\t<p class=\"a\">{ name }</p>\n}\n",
	"package main\n\nimport \"strings\"\n\ntempl x(s string) {\n\tif s != \"\" {\n\t\t<b>{ strings.ToUpper(s) }</b>\n\t} else {\n\t\t<i>none</i>\n\t}\n}\n",
	"package main\n\ntempl a() {\n\t<ul>\n\t\tfor _, s := range []string{\"a\"} {\n\t\t\t<li>{ s }</li>\n\t\t}\n\t</ul>\n}\n\ntempl b() {\n\t@a()\n}\n",
	"package main\n\ntempl x() {\n\t<div>hi</div>\n}", // no final newline
	// refused when opened: half-typed files
	"package main\n\ntempl x( {\n}\n",
	"package main\n\ntempl x() {\n\t<div>\n}\n",
	"package main\n\ntempl x() {\n\t<p>{ name </p>\n}\n",
	"package main\n\ntempl x() {\n",
	"templ x() {\n}\n",
	"",
	"package",
}

var c17SrvTexts = []string{"", "", "x", "\n", ")", "}", "\n}\n", "<p>a</p>", "</div>", "{ s }", "\t<span>q</span>\n", "hello world", "\n\n", "ab\ncd", "templ y() {\n}\n"}

func c17SrvRandEdit(rnd interface{ Intn(int) int }, cur string) c17Edit {
	e := c17RandEdit(rnd, cur)
	if e.Full {
		e.Text = c17SrvDocs[rnd.Intn(len(c17SrvDocs))]
		return e
	}
	e.Text = c17SrvTexts[rnd.Intn(len(c17SrvTexts))]
	if rnd.Intn(3) == 0 {
		// a keystroke: insertion of one character at a position inside the text
		e.EL, e.EC = e.SL, e.SC
		const keys = "abc <>{}()\n\t\"="
		e.Text = string(keys[rnd.Intn(len(keys))])
	}
	return e
}

func c17ServerSessions(c *core.Ctx, report func(key, msg string, replay any)) {
	rnd := c.Rand("server")
	n := c.Pick(3000, 40000)
	st := c17SrvStats{uris: map[string]int{}}
	for i := 0; i < n; i++ {
		var cs c17SrvCase
		switch rnd.Intn(5) {
		case 0:
			cs.Preload = true
			cs.Disk = c17SrvDocs[rnd.Intn(len(c17SrvDocs))]
		case 1, 2:
			cs.URI = c17URIs[rnd.Intn(len(c17URIs))]
		}
		st.uris[cs.URI]++
		// every sixth session the editor's buffer has CRLF line endings (the LSP
		// position model counts a CR as an ordinary character of its line)
		crlf := rnd.Intn(6) == 0
		if crlf {
			st.crDocs++
		}
		cur, open := "", false
		nops := 2 + rnd.Intn(25)
		for k := 0; k < nops; k++ {
			switch {
			case !open:
				cur, open = c17SrvDocs[rnd.Intn(len(c17SrvDocs))], true
				if crlf {
					cur = strings.ReplaceAll(cur, "\n", "\r\n")
				}
				cs.Ops = append(cs.Ops, c17SrvOp{Kind: "open", Text: cur})
			case rnd.Intn(15) == 0:
				open = false
				cs.Ops = append(cs.Ops, c17SrvOp{Kind: "close"})
			case cs.Preload && rnd.Intn(8) == 0:
				cs.Ops = append(cs.Ops, c17SrvOp{Kind: "watched", Text: c17SrvDocs[rnd.Intn(len(c17SrvDocs))]})
			default:
				op := c17SrvOp{Kind: "change"}
				for j, m := 0, 1+rnd.Intn(3); j < m; j++ {
					e := c17SrvRandEdit(rnd, cur)
					if rnd.Intn(12) == 0 {
						// the edit that repairs a half-typed file: replace everything by a valid document
						e = c17Edit{Full: rnd.Intn(2) == 0, Text: c17SrvDocs[rnd.Intn(7)]}
						if !e.Full {
							e.EL = uint32(strings.Count(cur, "\n") + 1)
						}
					}
					op.Edits = append(op.Edits, e)
					cur = spliceRef(cur, e)
				}
				cs.Ops = append(cs.Ops, op)
			}
		}
		c.NontrivialStr(c17SrvKey(cs))
		if m, _ := c17RunServer(cs, &st); m != "" {
			r := c17SrvReduce(cs)
			m2, _ := c17RunServer(r, nil)
			if m2 == "" {
				r, m2 = cs, m
			}
			report(c17SrvKey(r), "LSP server copy diverges: "+m2, r)
		}
		if i < 2 {
			short := cs
			if len(short.Ops) > 4 {
				short.Ops = short.Ops[:4]
			}
			c.Sample(short)
		}
	}
	c.Eval(st.ops)
	c.Set("server_sessions", n)
	c.Set("server_notifications_checked", st.ops)
	c.Set("server_didOpen", st.opens)
	c.Set("server_didOpen_of_unparseable_document", st.openBad)
	c.Set("server_didChange", st.changes)
	c.Set("server_ranged_content_changes", st.ranged)
	c.Set("server_didClose_then_reopen", st.closes)
	c.Set("server_sessions_with_workspace_preload", st.preload)
	c.Set("server_sessions_where_editor_buffer_differs_from_preloaded_disk_text", st.preloadDiffers)
	c.Set("server_sessions_per_uri_spelling", st.uris)
	c.Set("server_didChangeWatchedFiles_for_the_open_document", st.watched)
	c.Set("server_sessions_with_CRLF_documents", st.crDocs)
	c.Set("server_states_where_buffer_is_valid_template_and_gopls_text_compared", st.parseOK)
	c.Set("server_states_where_buffer_does_not_parse", st.parseBad)
	if st.parseOK == 0 || st.parseBad == 0 || st.openBad == 0 || st.ranged == 0 {
		c.Inconclusive("server sessions did not observe both parseable and unparseable buffers")
	}
}
