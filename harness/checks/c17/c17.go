package c17

import (
	"fmt"
	"io"
	"log/slog"
	"strings"

	"github.com/a-h/templ/cmd/templ/lspcmd/proxy"
	lsp "github.com/a-h/templ/lsp/protocol"
	"verif/core"
)

// c17Edit is one LSP content change. Nil Range = full replace.
type c17Edit struct {
	Full           bool
	SL, SC, EL, EC uint32
	Text           string
}

type c17Case struct {
	Doc   string
	Edits []c17Edit
	API   string // "Document" or "DocumentContents"
}

// spliceRef is the independent reference model: a document is a byte string;
// a position (line, character) is clamped like the LSP specification says
// (line beyond the end -> end of document, character beyond the line -> end
// of line) and converted to a byte offset; a change replaces [start,end).
func spliceRef(doc string, e c17Edit) string {
	if e.Full {
		return e.Text
	}
	// line start table
	starts := []int{0}
	for i := 0; i < len(doc); i++ {
		if doc[i] == '\n' {
			starts = append(starts, i+1)
		}
	}
	lineLen := func(l int) int {
		if l+1 < len(starts) {
			return starts[l+1] - 1 - starts[l]
		}
		return len(doc) - starts[l]
	}
	off := func(l, c uint32) int {
		if int64(l) >= int64(len(starts)) {
			return len(doc)
		}
		ll := lineLen(int(l))
		if int64(c) > int64(ll) {
			c = uint32(ll)
		}
		return starts[l] + int(c)
	}
	s, t := off(e.SL, e.SC), off(e.EL, e.EC)
	if t < s {
		t = s
	}
	return doc[:s] + e.Text + doc[t:]
}

func c17Range(e c17Edit) *lsp.Range {
	if e.Full {
		return nil
	}
	return &lsp.Range{Start: lsp.Position{Line: e.SL, Character: e.SC}, End: lsp.Position{Line: e.EL, Character: e.EC}}
}

var c17Log = slog.New(slog.NewTextHandler(io.Discard, nil))

// c17Run executes a case against the real code, checking after every step.
// Returns "" if held, otherwise a description.
func c17Run(cs c17Case) (msg string) {
	defer func() {
		if r := recover(); r != nil {
			msg = fmt.Sprintf("panic: %v", r)
		}
	}()
	want := cs.Doc
	switch cs.API {
	case "Document":
		d := proxy.NewDocument(c17Log, cs.Doc)
		for i, e := range cs.Edits {
			d.Apply(c17Range(e), e.Text)
			want = spliceRef(want, e)
			if got := d.String(); got != want {
				return fmt.Sprintf("after edit %d: server copy %q, editor has %q", i, got, want)
			}
		}
	default:
		dc := proxy.NewServer(c17Log, nil, nil, nil, true).TemplSource
		dc.Set("file:///x.templ", proxy.NewDocument(c17Log, cs.Doc))
		// deliver the edits in groups of up to 3 per didChange notification
		for i := 0; i < len(cs.Edits); {
			n := 1 + (i % 3)
			if i+n > len(cs.Edits) {
				n = len(cs.Edits) - i
			}
			var evs []lsp.TextDocumentContentChangeEvent
			for _, e := range cs.Edits[i : i+n] {
				evs = append(evs, lsp.TextDocumentContentChangeEvent{Range: c17Range(e), Text: e.Text})
				want = spliceRef(want, e)
			}
			d, err := dc.Apply("file:///x.templ", evs)
			if err != nil {
				return fmt.Sprintf("Apply returned error: %v", err)
			}
			if got := d.String(); got != want {
				return fmt.Sprintf("after edits %d..%d: server copy %q, editor has %q", i, i+n-1, got, want)
			}
			i += n
		}
	}
	return ""
}

func c17Key(cs c17Case) string {
	var sb strings.Builder
	fmt.Fprintf(&sb, "%s doc=%q", cs.API, cs.Doc)
	for _, e := range cs.Edits {
		if e.Full {
			fmt.Fprintf(&sb, " full(%q)", e.Text)
		} else {
			fmt.Fprintf(&sb, " %d:%d-%d:%d(%q)", e.SL, e.SC, e.EL, e.EC, e.Text)
		}
	}
	return sb.String()
}

// c17Reduce shrinks a failing multi-edit case: first to the failing prefix
// started from the reference document just before the failing edit (a single
// edit on a known document), then shortens document and text.
func c17Reduce(cs c17Case) c17Case {
	// find first failing step, restart from the reference state before it
	doc := cs.Doc
	for i, e := range cs.Edits {
		one := c17Case{Doc: doc, Edits: []c17Edit{e}, API: "Document"}
		if c17Run(one) != "" {
			cs = one
			break
		}
		doc = spliceRef(doc, e)
		_ = i
	}
	if len(cs.Edits) != 1 {
		return cs
	}
	// shrink: canonical letters
	e := cs.Edits[0]
	canon := func(s string) string {
		b := []byte(s)
		for i := range b {
			if b[i] != '\n' {
				b[i] = 'a'
			}
		}
		return string(b)
	}
	try := c17Case{Doc: canon(cs.Doc), Edits: []c17Edit{{e.Full, e.SL, e.SC, e.EL, e.EC, canon(e.Text)}}, API: "Document"}
	if c17Run(try) != "" {
		cs = try
	}
	return cs
}

// Run is the C17 check.
func Run(c *core.Ctx) {
	c.Rule = "cases = (initial document, sequence of LSP content changes, API) checked after every step against a byte-splice reference; exhaustive part: every document of length<=6 over {a,LF} x every ordered (start,end) with lines 0..L+1 and characters 0..maxlen+1 x 7 replacement texts + full replace, through Document.Apply and DocumentContents.Apply; server part: random sessions of didOpen (documents the parser accepts and half-typed ones it refuses) / didChange with 1-3 content changes / didClose+reopen through the real proxy.Server with a recording stand-in for gopls, checking after every notification the server copy against the reference and, when the buffer is a valid template, the Go text handed to gopls against generating from the buffer; non-trivial = the change carries a range (not a whole-document replacement); distinct by (doc,range,text,api)"
	c.Assume("positions are byte offsets within a line (the server negotiates no position encoding); documents are ASCII (the exhaustive part uses the property's alphabet {letter, newline}; random and server-level documents also contain CR, which the LSP position model counts as an ordinary character of its line)")
	c.Assume("ranges satisfy start<=end as LSP requires of clients")
	if c.ReplayFile != "" {
		var both struct {
			c17Case
			URI     string
			Preload bool
			Disk    string
			Ops     []c17SrvOp
		}
		c.LoadReplay(&both)
		c.Eval(1)
		c.NontrivialN(2)
		if len(both.Ops) > 0 {
			sc := c17SrvCase{URI: both.URI, Preload: both.Preload, Disk: both.Disk, Ops: both.Ops}
			if m, _ := c17RunServer(sc, nil); m != "" {
				c.Violate(c17SrvKey(sc), m, sc)
			}
			return
		}
		cs := both.c17Case
		if m := c17Run(cs); m != "" {
			c.Violate(c17Key(cs), m, cs)
		}
		return
	}
	report := func(cs c17Case, m string) {
		r := c17Reduce(cs)
		m2 := c17Run(r)
		if m2 == "" {
			r, m2 = cs, m
		}
		c.Violate(c17Key(r), "LSP document copy diverges: "+m2, r)
	}
	// ---- exhaustive part
	maxLen := c.Pick(6, 7)
	texts := []string{"", "x", "\n", "x\ny", "\n\n", "xy", "x\n"}
	var docs []string
	var gen func(p string)
	gen = func(p string) {
		docs = append(docs, p)
		if len(p) == maxLen {
			return
		}
		gen(p + "a")
		gen(p + "\n")
	}
	gen("")
	exh := 0
	for _, doc := range docs {
		lines := strings.Split(doc, "\n")
		ml := 0
		for _, l := range lines {
			if len(l) > ml {
				ml = len(l)
			}
		}
		type pos struct{ l, ch uint32 }
		var ps []pos
		for l := 0; l <= len(lines)+1; l++ {
			for ch := 0; ch <= ml+1; ch++ {
				ps = append(ps, pos{uint32(l), uint32(ch)})
			}
		}
		for _, api := range []string{"Document", "DocumentContents"} {
			for i, s := range ps {
				for _, e := range ps[i:] {
					for _, t := range texts {
						cs := c17Case{Doc: doc, API: api, Edits: []c17Edit{{false, s.l, s.ch, e.l, e.ch, t}}}
						exh++
						if m := c17Run(cs); m != "" {
							report(cs, m)
						}
					}
				}
			}
			for _, t := range texts {
				cs := c17Case{Doc: doc, API: api, Edits: []c17Edit{{Full: true, Text: t}}}
				c.Eval(1)
				if m := c17Run(cs); m != "" {
					report(cs, m)
				}
			}
		}
		if doc == "a\na" {
			c.Sample(c17Case{Doc: doc, API: "Document", Edits: []c17Edit{{false, 0, 1, 1, 0, "x\ny"}}})
			c.Sample(c17Case{Doc: doc, API: "DocumentContents", Edits: []c17Edit{{false, 0, 0, 3, 2, ""}}})
		}
	}
	c.Eval(exh)
	c.NontrivialN(exh)
	c.Set("exhaustive_documents", len(docs))
	c.Set("exhaustive_single_edits", exh)
	c.Set("exhaustive", false)
	c.Set("exhaustive_subspace", fmt.Sprintf("all documents of length<=%d over {a,LF} x all ordered ranges (lines 0..L+1, chars 0..maxlen+1) x %d texts x 2 APIs were enumerated completely", maxLen, len(texts)))

	// ---- random long sequences
	rnd := c.Rand("seq")
	nseq := c.Pick(20000, 400000)
	steps := 0
	for i := 0; i < nseq; i++ {
		// document
		var sb strings.Builder
		nl := rnd.Intn(40)
		if i%10 == 0 {
			nl = rnd.Intn(200)
		}
		for l := 0; l < nl; l++ {
			n := rnd.Intn(30)
			if rnd.Intn(4) == 0 {
				n = 0
			}
			for k := 0; k < n; k++ {
				const al = "abcdefghij {}<>\t\"'()=@"
				sb.WriteByte(al[rnd.Intn(len(al))])
			}
			if l < nl-1 || rnd.Intn(2) == 0 {
				sb.WriteByte('\n')
			}
		}
		doc := sb.String()
		cs := c17Case{Doc: doc, API: []string{"Document", "DocumentContents"}[i%2]}
		cur := doc
		ne := 1 + rnd.Intn(60)
		for k := 0; k < ne; k++ {
			e := c17RandEdit(rnd, cur)
			cs.Edits = append(cs.Edits, e)
			cur = spliceRef(cur, e)
			if !e.Full {
				c.NontrivialStr(cur, fmt.Sprint(e))
			}
		}
		steps += ne
		if m := c17Run(cs); m != "" {
			report(cs, m)
		}
		if i < 2 {
			short := cs
			if len(short.Edits) > 4 {
				short.Edits = short.Edits[:4]
			}
			if len(short.Doc) > 80 {
				short.Doc = short.Doc[:80] + "…"
			}
			c.Sample(short)
		}
	}
	c.Eval(steps)
	// ---- whole notifications through proxy.Server (didOpen / didChange / didClose)
	c17ServerSessions(c, func(key, msg string, replay any) { c.Violate(key, msg, replay) })
	c.Set("random_sequences", nseq)
	c.Set("random_edit_steps", steps)
}

func c17RandEdit(rnd interface{ Intn(int) int }, cur string) c17Edit {
	texts := []string{"", "", "x", "\n", "ab\ncd", "\n\n", "hello world", "a\n", "\nb", "{ x }", "\n\n\nq", "\r\n", "a\r\nb", "\r"}
	t := texts[rnd.Intn(len(texts))]
	if rnd.Intn(25) == 0 {
		return c17Edit{Full: true, Text: t}
	}
	lines := strings.Split(cur, "\n")
	pick := func() (uint32, uint32) {
		l := rnd.Intn(len(lines) + 2)
		ll := 0
		if l < len(lines) {
			ll = len(lines[l])
		}
		var ch int
		switch rnd.Intn(6) {
		case 0:
			ch = 0
		case 1:
			ch = ll
		case 2:
			ch = ll + 1 + rnd.Intn(3)
		default:
			ch = rnd.Intn(ll + 1)
		}
		if rnd.Intn(8) == 0 {
			l = 0
		}
		if rnd.Intn(8) == 0 {
			l = len(lines) - 1
		}
		return uint32(l), uint32(ch)
	}
	sl, sc := pick()
	el, ec := sl, sc
	switch rnd.Intn(4) {
	case 0: // insertion
	case 1: // same line
		ll := 0
		if int(sl) < len(lines) {
			ll = len(lines[sl])
		}
		ec = sc + uint32(rnd.Intn(ll+2))
	default:
		el, ec = pick()
	}
	if el < sl || (el == sl && ec < sc) {
		sl, sc, el, ec = el, ec, sl, sc
	}
	return c17Edit{false, sl, sc, el, ec, t}
}
