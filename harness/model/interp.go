package model

import (
	"encoding/json"
	"fmt"
	"html"
	"sort"
	"strings"
)

// Atom is one non-whitespace symbol of the expected output.
type Atom struct {
	Kind  string      // start | end | comment | doctype | word
	Name  string      // tag name
	Attrs [][2]string // start: attributes in order (decoded values)
	Data  string      // word text (decoded) / comment data / doctype
	// gap before this atom
	GapWS  bool   // some source whitespace lay on the path since the previous atom
	GapReq bool   // the previous atom and this one are sibling inline items separated by source whitespace
	Blame  string // description of the model nodes on either side (for witness keys)
}

func (a Atom) String() string {
	switch a.Kind {
	case "start":
		var sb strings.Builder
		sb.WriteString("<" + a.Name)
		for _, kv := range a.Attrs {
			fmt.Fprintf(&sb, " %s=%q", kv[0], kv[1])
		}
		return sb.String() + ">"
	case "end":
		return "</" + a.Name + ">"
	case "comment":
		return "<!--" + a.Data + "-->"
	case "doctype":
		return "<!doctype " + a.Data + ">"
	}
	return fmt.Sprintf("%q", a.Data)
}

type emitter struct {
	atoms   []Atom
	pendWS  bool
	pendReq bool
	// carry: the last atom came from an inline item that is directly followed
	// by source whitespace, and only control-flow boundaries have been crossed
	// since. If the next atom is the first atom of another inline item the
	// separation is required (templ passes the "next node" through if / for /
	// switch bodies for exactly this purpose).
	carry  bool
	left   string // blame: what produced the previous atom
	cur    string // blame: node currently rendering
	bounds []string
}

func (e *emitter) ws(why string) {
	e.pendWS = true
	e.bounds = append(e.bounds, why)
}

func (e *emitter) atom(a Atom) {
	a.GapWS, a.GapReq = e.pendWS, e.pendReq
	a.Blame = e.left + " | " + e.cur
	if len(e.bounds) > 0 {
		a.Blame += " [" + strings.Join(e.bounds, ";") + "]"
	}
	e.pendWS, e.pendReq = false, false
	e.bounds = nil
	e.left = e.cur
	e.atoms = append(e.atoms, a)
}

func isHTMLSpace(b byte) bool { return b == ' ' || b == '\t' || b == '\n' || b == '\r' || b == '\f' }

// words emits the words of a piece of (decoded) text; internal whitespace is
// literal text and therefore a required separation.
func (e *emitter) words(s string, literal bool) {
	i := 0
	first := true
	for i < len(s) {
		if isHTMLSpace(s[i]) {
			j := i
			for j < len(s) && isHTMLSpace(s[j]) {
				j++
			}
			e.ws("text-internal")
			if !first && literal && j < len(s) {
				e.pendReq = true
			}
			i = j
			continue
		}
		j := i
		for j < len(s) && !isHTMLSpace(s[j]) {
			j++
		}
		e.atom(Atom{Kind: "word", Data: s[i:j]})
		first = false
		i = j
	}
}

// Result of interpreting a program with one argument vector.
type Result struct {
	Atoms []Atom
	Trace []int
}

// Interpret computes the reference rendering of the program's entry component.
func (p *Program) Interpret(a *Args) Result {
	var trace []int
	env := &Env{A: a, Vars: map[string]string{}, Ints: map[string]int{}, Trace: &trace}
	e := &emitter{left: "start", cur: "start"}
	in := &interp{e: e, p: p}
	in.list(p.Comps[0].Body, env, "template", p.Comps[0].End, false)
	if p.Comps[0].End != SepNone {
		e.ws("template-end")
	}
	return Result{Atoms: e.atoms, Trace: trace}
}

type interp struct {
	e *emitter
	p *Program
	// per-render registries: script functions and css rules are emitted once
	scriptDone, cssDone bool
	// children slot of the component currently rendering: a closure rendering
	// the caller's block in the caller's environment (nil: no block)
	slot []func()
}

// list renders a sibling list. endSep is the separator between the last node
// and the container's closing; flow reports whether the container is a
// control-flow body (the required-separation state survives its boundaries)
// or an element / template / call block (it does not).
func (in *interp) list(ns []*Node, env *Env, parent string, endSep Sep, flow bool) {
	e := in.e
	if !flow {
		e.carry = false
	}
	for i, n := range ns {
		if n.Before != SepNone {
			e.ws(parent + ":" + n.Before.String())
		}
		following := endSep
		if i+1 < len(ns) {
			following = ns[i+1].Before
		}
		switch {
		case n.InlineItem():
			before := len(e.atoms)
			e.pendReq = e.carry
			e.carry = false
			in.node(n, env, parent)
			e.pendReq = false
			produced := len(e.atoms) > before
			e.carry = produced && following != SepNone
		case n.Kind == KIf || n.Kind == KFor || n.Kind == KSwitch:
			in.node(n, env, parent) // carry passes through
		default:
			e.carry = false
			in.node(n, env, parent)
			e.carry = false
		}
	}
	if !flow {
		e.carry = false
	}
}

func describe(n *Node, parent string) string {
	switch n.Kind {
	case KElem:
		cls := "block"
		if isInlineName(n.Name) {
			cls = "inline"
		}
		if isVoid(n.Name) {
			cls += "-void"
		}
		if n.Name == "a" {
			cls = "inline"
		}
		return fmt.Sprintf("%s-element in %s", cls, parent)
	}
	return fmt.Sprintf("%s in %s", n.Kind, parent)
}

func (in *interp) attrs(as []*Attr, env *Env, out *[][2]string) {
	for _, a := range as {
		switch a.Kind {
		case AConst:
			*out = append(*out, [2]string{a.Name, a.Val})
		case ABoolConst:
			*out = append(*out, [2]string{a.Name, ""})
		case ABoolExpr:
			if a.C.Value(env) {
				*out = append(*out, [2]string{a.Name, ""})
			}
		case AExpr, AHref:
			*out = append(*out, [2]string{a.Name, a.X.Value(env)})
		case ASpread:
			keys := make([]string, 0, len(env.A.At))
			for k := range env.A.At {
				keys = append(keys, k)
			}
			sort.Strings(keys)
			for _, k := range keys {
				switch v := env.A.At[k].(type) {
				case string:
					*out = append(*out, [2]string{k, v})
				case bool:
					if v {
						*out = append(*out, [2]string{k, ""})
					}
				case map[string]any:
					b, _ := v["b"].(bool)
					b2, _ := v["b2"].(bool)
					sv, _ := v["s"].(string)
					switch v["k"] {
					case "pbool", "fbool":
						if b {
							*out = append(*out, [2]string{k, ""})
						}
					case "pstring":
						*out = append(*out, [2]string{k, sv})
					case "kvsb":
						if b {
							*out = append(*out, [2]string{k, sv})
						}
					case "kvbb":
						if b && b2 {
							*out = append(*out, [2]string{k, ""})
						}
					}
				}
			}
		case AOnEvent:
			*out = append(*out, [2]string{a.Name, ScriptCallText(in.p.Script, a.X.Value(env))})
		case AClass:
			var names []string
			for _, p := range a.Parts {
				if p.CSS != nil {
					names = append(names, p.CSS.Name+"_HASH")
					continue
				}
				if p.Cond == nil || p.Cond.Value(env) {
					names = append(names, p.Lit)
				}
			}
			*out = append(*out, [2]string{"class", strings.Join(names, " ")})
		case ACond:
			if a.C.Value(env) {
				in.attrs(a.Then, env, out)
			} else {
				in.attrs(a.Else, env, out)
			}
		}
	}
}

func (in *interp) node(n *Node, env *Env, parent string) {
	e := in.e
	e.cur = describe(n, parent)
	switch n.Kind {
	case KText:
		e.words(html.UnescapeString(n.Text), true)
	case KExpr:
		v := n.X.Value(env)
		if v != "" {
			e.atom(Atom{Kind: "word", Data: v})
		}
	case KElem:
		var as [][2]string
		in.attrs(n.Attrs, env, &as)
		// css rules and script functions used by the element's attributes are
		// emitted in front of it, once per render (styles first)
		if in.usesCSS(n.Attrs, env) && !in.cssDone {
			in.cssDone = true
			in.emitCSS()
			e.cur = describe(n, parent)
		}
		if in.usesScript(n.Attrs, env) && !in.scriptDone {
			in.scriptDone = true
			in.emitScriptDef()
			e.cur = describe(n, parent)
		}
		e.atom(Atom{Kind: "start", Name: n.Name, Attrs: as})
		if isVoid(n.Name) {
			return
		}
		in.list(n.Kids, env, "element", n.End, false)
		if n.End != SepNone {
			e.ws("element-end:" + n.End.String())
		}
		e.cur = describe(n, parent)
		e.atom(Atom{Kind: "end", Name: n.Name})
	case KIf:
		body, end := []*Node(nil), SepNone
		taken := false
		if n.Cond.Value(env) {
			body, end, taken = n.Kids, n.End, true
		} else {
			for _, ei := range n.ElseIfs {
				if ei.Cond.Value(env) {
					body, end, taken = ei.Body, ei.End, true
					break
				}
			}
			if !taken && n.HasElse {
				body, end, taken = n.Else, n.ElseEnd, true
			}
		}
		if taken {
			in.list(body, env.child(), "if-body", end, true)
			if end != SepNone {
				e.ws("if-body-end")
			}
		}
	case KFor:
		iter := 0
		n.ForIter(env, func(c *Env) {
			if iter > 0 {
				e.carry = false // iteration to iteration: separation depends on what follows the loop
			}
			iter++
			in.list(n.Kids, c, "for-body", n.End, true)
			if n.End != SepNone {
				e.ws("for-body-end")
			}
		})
	case KSwitch:
		var def *Case
		var hit *Case
		for i := range n.Cases {
			c := &n.Cases[i]
			if c.Default {
				def = c
				continue
			}
			if c.Cond != nil {
				if c.Cond.Value(env) {
					hit = c
					break
				}
			} else if c.Match(env) {
				hit = c
				break
			}
		}
		if hit == nil {
			hit = def
		}
		if hit != nil {
			in.list(hit.Body, env.child(), "case-body", SepNL, true)
			e.ws("case-body-end")
		}
	case KCall:
		arg := n.ArgS.Value(env)
		cenv := &Env{A: env.A, Vars: map[string]string{"p": arg}, Ints: map[string]int{}, Trace: env.Trace}
		var block func()
		if n.HasBlock {
			callerSlot := in.slot
			block = func() {
				// the block renders in the caller's scope, with the caller's own slot
				saved := in.slot
				in.slot = callerSlot
				in.list(n.Kids, env.child(), "call-block", n.End, false)
				if n.End != SepNone {
					e.ws("call-block-end")
				}
				in.slot = saved
			}
		}
		// copy on push: the block closure keeps the caller's stack, which must
		// not share a backing array with stacks pushed later
		if n.Callee.Code {
			// hand-written capture component: <q> children </q>, nothing else
			e.atom(Atom{Kind: "start", Name: "q"})
			if block != nil {
				block()
			}
			e.cur = describe(n, parent)
			e.atom(Atom{Kind: "end", Name: "q"})
			return
		}
		outer := in.slot
		in.slot = append(append(make([]func(), 0, len(outer)+1), outer...), block)
		in.list(n.Callee.Body, cenv, "template", n.Callee.End, false)
		if n.Callee.End != SepNone {
			e.ws("template-end")
		}
		in.slot = outer
	case KScriptCall:
		arg := n.ArgS.Value(env)
		if !in.scriptDone {
			in.scriptDone = true
			in.emitScriptDef()
		}
		e.atom(Atom{Kind: "start", Name: "script"})
		e.words(ScriptCallText(in.p.Script, arg), true)
		e.atom(Atom{Kind: "end", Name: "script"})
	case KSlot:
		if len(in.slot) > 0 {
			if b := in.slot[len(in.slot)-1]; b != nil {
				b()
			}
		}
	case KGoCode:
		if n.VarName != "" {
			env.Vars[n.VarName] = n.VarX.Value(env)
		}
	case KHTMLComment:
		e.atom(Atom{Kind: "comment", Data: n.Text})
	case KGoComment:
		// renders nothing
	case KDoctype:
		e.atom(Atom{Kind: "doctype", Data: "html"})
	case KRaw:
		e.atom(Atom{Kind: "start", Name: n.Name})
		e.words(n.Text, true)
		e.cur = describe(n, parent)
		e.atom(Atom{Kind: "end", Name: n.Name})
	}
}

// ScriptCallText is the JavaScript call templ emits for a script template
// invoked with one string argument (function name hash normalised to HASH).
func ScriptCallText(st *ScriptTemplate, arg string) string {
	b, _ := json.Marshal(arg)
	return "__templ_" + st.Name + "_HASH(" + string(b) + []string{"", `,"k"`, `,"k"`, ",7"}[st.Sig] + ")"
}

func (in *interp) emitScriptDef() {
	e := in.e
	e.atom(Atom{Kind: "start", Name: "script"})
	e.words("function __templ_"+in.p.Script.Name+"_HASH("+[]string{"x", "x, y", "x, y", "x, y"}[in.p.Script.Sig]+"){"+in.p.Script.Body+"\n}", true)
	e.atom(Atom{Kind: "end", Name: "script"})
}

func (in *interp) emitCSS() {
	e := in.e
	e.atom(Atom{Kind: "start", Name: "style", Attrs: [][2]string{{"type", "text/css"}}})
	var sb strings.Builder
	sb.WriteString("." + in.p.CSS.Name + "_HASH{")
	for _, kv := range in.p.CSS.Props {
		sb.WriteString(kv[0] + ":" + kv[1] + ";")
	}
	sb.WriteString("}")
	e.words(sb.String(), true)
	e.atom(Atom{Kind: "end", Name: "style"})
}

// usesCSS / usesScript: the generator hoists class and on* expressions of ALL
// attributes of the element, including those inside conditional attributes
// whatever their condition (a listed known finding for evaluation; for the
// emitted rule/function it only matters that it appears before first use).
func (in *interp) usesCSS(as []*Attr, env *Env) bool {
	for _, a := range as {
		switch a.Kind {
		case AClass:
			for _, p := range a.Parts {
				if p.CSS != nil {
					return true
				}
			}
		case ACond:
			if in.usesCSS(a.Then, env) || in.usesCSS(a.Else, env) {
				return true
			}
		}
	}
	return false
}

func (in *interp) usesScript(as []*Attr, env *Env) bool {
	for _, a := range as {
		switch a.Kind {
		case AOnEvent:
			return true
		case ACond:
			if in.usesScript(a.Then, env) || in.usesScript(a.Else, env) {
				return true
			}
		}
	}
	return false
}
