// Package model is a small typed templ language that the harness can print
// (in many concrete spellings), and interpret (reference semantics of "what
// the template denotes"). It is the oracle side of C02 and independent of the
// generator: it never looks at generated code.
package model

import (
	"fmt"
	"math/rand"
	"sort"
	"strings"
)

// Args is the argument struct "A" every generated component takes.
type Args struct {
	S  [4]string      `json:"s"`
	B  [4]bool        `json:"b"`
	N  int            `json:"n"`
	K  int            `json:"k"`
	L  []string       `json:"l"`
	At map[string]any `json:"at"` // spread attributes: string or bool values
}

// Env is the evaluation environment of the reference interpreter.
type Env struct {
	A     *Args
	Vars  map[string]string // loop variables, go-code variables, callee parameter
	Ints  map[string]int
	Trace *[]int
}

func (e *Env) child() *Env {
	n := &Env{A: e.A, Vars: map[string]string{}, Ints: map[string]int{}, Trace: e.Trace}
	for k, v := range e.Vars {
		n.Vars[k] = v
	}
	for k, v := range e.Ints {
		n.Ints[k] = v
	}
	return n
}

// SExpr is a string-typed Go expression with its reference evaluation.
type SExpr struct {
	ID    int
	Go    string // inner Go text (without tracer)
	Eval  func(*Env) string
	Err   bool // printed as a (string, error) call
	Multi bool // printed across several lines
	Bare  bool // a literal printed as it is, without the tracer
}

// Src is the Go text placed in the template.
func (x *SExpr) Src() string {
	if x.Bare {
		// a bare literal, not wrapped in the trace function: the form the
		// generator may treat specially; it is not part of the evaluation trace
		return x.Go
	}
	fn := "ts"
	if x.Err {
		fn = "tse"
	}
	if x.Multi {
		return fmt.Sprintf("%s(%d,\n\t\t%s)", fn, x.ID, x.Go)
	}
	return fmt.Sprintf("%s(%d, %s)", fn, x.ID, x.Go)
}

func (x *SExpr) Value(e *Env) string {
	if x.Bare {
		return x.Eval(e)
	}
	*e.Trace = append(*e.Trace, x.ID)
	return x.Eval(e)
}

// BExpr is a bool-typed Go expression.
type BExpr struct {
	ID   int
	Go   string
	Eval func(*Env) bool
}

func (x *BExpr) Src() string { return fmt.Sprintf("tb(%d, %s)", x.ID, x.Go) }
func (x *BExpr) Value(e *Env) bool {
	*e.Trace = append(*e.Trace, x.ID)
	return x.Eval(e)
}

// Sep is the source whitespace between two things.
type Sep int

const (
	SepNone Sep = iota
	SepSpace
	SepNL
)

func (s Sep) String() string { return [...]string{"none", "space", "newline"}[s] }

type Kind int

const (
	KText Kind = iota
	KElem
	KExpr
	KIf
	KFor
	KSwitch
	KCall
	KSlot
	KGoCode
	KHTMLComment
	KGoComment
	KDoctype
	KRaw        // <style> / <script> with static content
	KScriptCall // @scriptTemplate(arg) rendered as a component
)

var kindNames = [...]string{"text", "element", "stringexpr", "if", "for", "switch", "call", "children", "gocode", "htmlcomment", "gocomment", "doctype", "rawelement", "scriptcall"}

func (k Kind) String() string { return kindNames[k] }

// AttrKind enumerates attribute forms.
type AttrKind int

const (
	AConst AttrKind = iota
	ABoolConst
	ABoolExpr
	AExpr
	ASpread
	ACond
	AClass
	AHref
	AOnEvent // on*={ scriptTemplate(arg) }
)

var attrKindNames = [...]string{"constant", "boolconstant", "boolexpr", "expression", "spread", "conditional", "class", "href", "onevent"}

func (k AttrKind) String() string { return attrKindNames[k] }

type ClassPart struct {
	Lit  string       // literal class name (always non-empty)
	Cond *BExpr       // nil: plain string; else templ.KV(lit, cond)
	CSS  *CSSTemplate // a css component: cssName()
}

// ScriptTemplate is a file-level `script name(x string) { body }`.
type ScriptTemplate struct {
	Name string
	Body string // JavaScript using the parameter x
	// Sig is the spelling of the parameter list: 0 `(x string)`, 1 `(x, y string)`
	// (Go's grouped form), 2 `(x string, y string)`, 3 `(x string, y int)`. With
	// a second parameter every call passes a constant second argument.
	Sig int
}

// ScriptParams is the parameter list as written in the template.
func (st *ScriptTemplate) ScriptParams() string {
	return []string{"x string", "x, y string", "x string, y string", "x string, y int"}[st.Sig]
}

// ScriptArg2 is the Go text of the constant second argument ("" if none).
func (st *ScriptTemplate) ScriptArg2() string {
	return []string{"", `, "k"`, `, "k"`, ", 7"}[st.Sig]
}

// CSSTemplate is a file-level `css name() { prop: value; ... }` with constant properties.
type CSSTemplate struct {
	Name  string
	Props [][2]string
}

type Attr struct {
	Kind  AttrKind
	Name  string
	Val   string // AConst: decoded value
	Quote byte   // AConst: '"', '\'' or 0 (unquoted)
	X     *SExpr // AExpr, AHref
	C     *BExpr // ABoolExpr, ACond
	Then  []*Attr
	Else  []*Attr
	Parts []ClassPart
	NL    bool // printed on its own line
}

type Case struct {
	Go      string // "case 1, 2:" or "default:" or "case tb(..):"
	Match   func(*Env) bool
	Default bool
	Cond    *BExpr // tagless switch: traced condition
	Body    []*Node
	End     Sep
}

type ElseIf struct {
	Cond *BExpr
	Body []*Node
	End  Sep
}

// Node of the model tree. Before is the source separator between the previous
// sibling (or the parent's opening) and this node; End fields are the
// separators before a container's closing.
type Node struct {
	Kind   Kind
	Before Sep

	Text string // KText: source text (single line, may contain character references); KHTMLComment/KGoComment: content; KRaw: content

	Name      string // KElem / KRaw element name
	Attrs     []*Attr
	Kids      []*Node
	End       Sep  // before the closing tag / closing brace
	SelfClose bool // printed as <x/>
	AttrsNL   bool

	X *SExpr // KExpr

	Cond    *BExpr // KIf
	ElseIfs []ElseIf
	HasElse bool
	Else    []*Node
	ElseEnd Sep

	// KFor
	ForGo   string
	ForIter func(*Env, func(*Env)) // calls body once per iteration with a child env

	// KSwitch
	SwitchGo string
	Cases    []Case

	// KCall
	Callee   *Component
	ArgS     *SExpr // string argument passed to the callee
	HasBlock bool
	Legacy   bool

	// KGoCode
	VarName string
	VarX    *SExpr

	BlockComment bool // KGoComment: /* */ instead of //

	Sp uint8 // spelling selector (0 = canonical): brace padding, brace position
}

// Component is one `templ` function of a file.
type Component struct {
	Name   string
	Code   bool // hand-written Go component (helpers.go): captures its children into its own buffer and writes them inside <q>…</q>
	Callee bool // takes (a A, p string); main components take (a A)
	Body   []*Node
	End    Sep
}

// Program is one .templ file: a main component and its callees.
type Program struct {
	Name   string
	Comps  []*Component // Comps[0] is the entry point
	Script *ScriptTemplate
	CSS    *CSSTemplate
	Label  string // fixed cells: what the cell is
	GoFunc bool   // emit a Go helper function between templates
	CRLF   bool
	nextID int
}

// ----- classification used by the gap rule

var blockNames = []string{"div", "p", "ul", "li", "section", "h1"}
var inlineNames = []string{"span", "b", "i", "em", "strong", "code", "label", "my-chip", "x-tag"}
var voidInline = []string{"img", "input"}
var voidBlock = []string{"br", "hr"}

func isVoid(name string) bool {
	for _, v := range voidInline {
		if v == name {
			return true
		}
	}
	for _, v := range voidBlock {
		if v == name {
			return true
		}
	}
	return false
}

func isInlineName(name string) bool {
	if name == "a" {
		return true
	}
	for _, v := range inlineNames {
		if v == name {
			return true
		}
	}
	for _, v := range voidInline {
		if v == name {
			return true
		}
	}
	return false
}

// InlineItem reports whether the node is "adjacent inline content" in the
// sense of the property: text, a string expression or an inline element.
func (n *Node) InlineItem() bool {
	switch n.Kind {
	case KText, KExpr:
		return true
	case KElem:
		return isInlineName(n.Name)
	}
	return false
}

// ----- statistics helpers

func (p *Program) Walk(f func(n *Node, depth int)) {
	var walk func(ns []*Node, d int)
	walk = func(ns []*Node, d int) {
		for _, n := range ns {
			f(n, d)
			walk(n.Kids, d+1)
			for _, ei := range n.ElseIfs {
				walk(ei.Body, d+1)
			}
			walk(n.Else, d+1)
			for _, c := range n.Cases {
				walk(c.Body, d+1)
			}
		}
	}
	for _, c := range p.Comps {
		walk(c.Body, 0)
	}
}

func (p *Program) KindSet() string {
	m := map[string]bool{}
	p.Walk(func(n *Node, _ int) { m[n.Kind.String()] = true })
	var ks []string
	for k := range m {
		ks = append(ks, k)
	}
	sort.Strings(ks)
	return strings.Join(ks, ",")
}

func pick[T any](r *rand.Rand, xs []T) T { return xs[r.Intn(len(xs))] }
