package model

import (
	"fmt"
	"regexp"
	"strings"

	"verif/oracle/html5"
)

// unit is the comparison granule: a tag-like symbol or one byte of text.
type unit struct {
	sym   string // non-empty for tag-like symbols
	ch    byte
	ws    bool // actual: whitespace seen before this unit; expected: GapWS
	req   bool // expected only
	blame string
}

func expectedUnits(atoms []Atom) []unit {
	var us []unit
	for _, a := range atoms {
		if a.Kind == "word" {
			for i := 0; i < len(a.Data); i++ {
				u := unit{ch: a.Data[i], blame: a.Blame}
				if i == 0 {
					u.ws, u.req = a.GapWS, a.GapReq
				}
				us = append(us, u)
			}
			continue
		}
		us = append(us, unit{sym: a.String(), ws: a.GapWS, req: a.GapReq, blame: a.Blame})
	}
	return us
}

func actualUnits(toks []html5.Tok) []unit {
	var us []unit
	pend := false
	for _, t := range toks {
		switch t.Kind {
		case "text":
			s := html5.NormText(t.Data)
			for i := 0; i < len(s); i++ {
				if isHTMLSpace(s[i]) {
					pend = true
					continue
				}
				us = append(us, unit{ch: s[i], ws: pend})
				pend = false
			}
			continue
		case "start", "selfclose":
			a := Atom{Kind: "start", Name: t.Name}
			for _, at := range t.Attrs {
				a.Attrs = append(a.Attrs, [2]string{at.Key, html5.NormText(at.Val)})
			}
			us = append(us, unit{sym: a.String(), ws: pend})
		case "end":
			us = append(us, unit{sym: "</" + t.Name + ">", ws: pend})
		case "comment":
			us = append(us, unit{sym: "<!--" + t.Data + "-->", ws: pend})
		case "doctype":
			us = append(us, unit{sym: "<!doctype " + t.Data + ">", ws: pend})
		}
		pend = false
	}
	return us
}

func (u unit) show() string {
	if u.sym != "" {
		return u.sym
	}
	return fmt.Sprintf("%q", string(u.ch))
}

// Mismatch describes the first discrepancy between the reference rendering
// and the observed one.
type Mismatch struct {
	Class string // content | separation-lost | whitespace-invented | extra-output | missing-output
	Blame string // model nodes on either side of the discrepancy
	Msg   string
}

// Compare checks observed output against the reference atoms.
var (
	scriptHashRe = regexp.MustCompile(`__templ_([A-Za-z0-9]+s[0-9])_[0-9a-f]{4}`)
	cssHashRe    = regexp.MustCompile(`([A-Za-z0-9]+k[0-9])_[0-9a-f]{8}`)
)

func Compare(atoms []Atom, out []byte) *Mismatch {
	// script function names and css class ids carry a content hash; the model
	// writes HASH in its place
	out = scriptHashRe.ReplaceAll(out, []byte("__templ_${1}_HASH"))
	out = cssHashRe.ReplaceAll(out, []byte("${1}_HASH"))
	toks, err := html5.Tokenize(out)
	if err != nil {
		return &Mismatch{Class: "content", Msg: "output does not tokenize: " + err.Error()}
	}
	exp := expectedUnits(atoms)
	act := actualUnits(toks)
	ctx := func(i int) string {
		lo := i - 8
		if lo < 0 {
			lo = 0
		}
		render := func(us []unit, expected bool) string {
			var sb strings.Builder
			for k := lo; k < i+4 && k < len(us); k++ {
				u := us[k]
				switch {
				case expected && u.req:
					sb.WriteString("␣")
				case expected && u.ws:
					sb.WriteString("(␣)")
				case !expected && u.ws:
					sb.WriteString("␣")
				}
				if u.sym != "" {
					sb.WriteString(u.sym)
				} else {
					sb.WriteByte(u.ch)
				}
			}
			return sb.String()
		}
		return fmt.Sprintf("expected …%s… observed …%s…  (␣ = whitespace, (␣) = optional)", render(exp, true), render(act, false))
	}
	for i := range exp {
		if i >= len(act) {
			return &Mismatch{Class: "missing-output", Blame: exp[i].blame, Msg: "output ends early; " + ctx(i)}
		}
		e, a := exp[i], act[i]
		if e.sym != a.sym || e.ch != a.ch {
			return &Mismatch{Class: "content", Blame: e.blame, Msg: ctx(i)}
		}
		if e.req && !a.ws {
			return &Mismatch{Class: "separation-lost", Blame: e.blame, Msg: "whitespace between adjacent inline items lost before " + e.show() + "; " + ctx(i)}
		}
		if !e.ws && !e.req && a.ws {
			return &Mismatch{Class: "whitespace-invented", Blame: e.blame, Msg: "whitespace appears before " + e.show() + " although the source has none on the path; " + ctx(i)}
		}
	}
	if len(act) > len(exp) {
		b := ""
		if len(exp) > 0 {
			b = exp[len(exp)-1].blame
		}
		return &Mismatch{Class: "extra-output", Blame: b, Msg: "output continues after the reference ends; " + ctx(len(exp))}
	}
	return nil
}

// TraceDiff compares evaluated expression ids as sets: an id evaluated but not
// reached, or reached but never evaluated.
func TraceDiff(want, got []int) (unreached, missing []int) {
	w, g := map[int]bool{}, map[int]bool{}
	for _, x := range want {
		w[x] = true
	}
	for _, x := range got {
		g[x] = true
	}
	for x := range g {
		if !w[x] {
			unreached = append(unreached, x)
		}
	}
	for x := range w {
		if !g[x] {
			missing = append(missing, x)
		}
	}
	return
}
