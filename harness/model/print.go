package model

import (
	"fmt"
	"html"
	"strings"
)

// Print renders the program as a .templ file.
func (p *Program) Print() string {
	var sb strings.Builder
	sb.WriteString("package main\n\nimport (\n\t\"strconv\"\n\t\"strings\"\n)\n\n")
	sb.WriteString("var _ = strconv.Itoa\nvar _ = strings.ToUpper\n\n")
	for i, c := range p.Comps {
		if c.Code {
			continue
		}
		if c.Callee {
			fmt.Fprintf(&sb, "templ %s(a A, p string) {", c.Name)
		} else {
			fmt.Fprintf(&sb, "templ %s(a A) {", c.Name)
		}
		pr := &printer{sb: &sb}
		if p.Script != nil {
			pr.script = p.Script.Name
			pr.scriptArg2 = p.Script.ScriptArg2()
		}
		pr.nodes(c.Body, 1)
		pr.sep(c.End, 0)
		sb.WriteString("}\n\n")
		if i == 0 && p.GoFunc {
			fmt.Fprintf(&sb, "func helper%s(s string) string {\n\treturn s + \"!\"\n}\n\n", p.Name)
		}
	}
	if p.Script != nil {
		fmt.Fprintf(&sb, "script %s(%s) {\n\t%s\n}\n\n", p.Script.Name, p.Script.ScriptParams(), p.Script.Body)
	}
	if p.CSS != nil {
		fmt.Fprintf(&sb, "css %s() {\n", p.CSS.Name)
		for _, kv := range p.CSS.Props {
			fmt.Fprintf(&sb, "\t%s: %s;\n", kv[0], kv[1])
		}
		sb.WriteString("}\n\n")
	}
	out := sb.String()
	if p.CRLF {
		out = strings.ReplaceAll(out, "\n", "\r\n")
	}
	return out
}

type printer struct {
	sb *strings.Builder
	// templ's parser needs whitespace after an unquoted attribute value
	// (`<a id=v>` is rejected, `<a id=v >` is accepted)
	lastUnquoted bool
	script       string // name of the file's script template
	scriptArg2   string // Go text of its constant second argument
}

func (pr *printer) sep(s Sep, depth int) {
	switch s {
	case SepSpace:
		pr.sb.WriteString(" ")
	case SepNL:
		pr.sb.WriteString("\n" + strings.Repeat("\t", depth))
	}
}

func (pr *printer) nodes(ns []*Node, depth int) {
	for _, n := range ns {
		pr.sep(n.Before, depth)
		pr.node(n, depth)
	}
}

// quoteAttr spells a constant attribute value in the given quote kind. The
// quote characters are written as character references; which spelling
// (named, decimal, hexadecimal) varies with the value so that all occur.
func quoteAttr(val string, q byte) string {
	dq := []string{"&quot;", "&#34;", "&#x22;"}[len(val)%3]
	sq := []string{"&#39;", "&apos;", "&#x27;"}[len(val)%3]
	switch q {
	case '"':
		r := strings.NewReplacer("&", "&amp;", `"`, dq, "<", "&lt;")
		if len(val)%2 == 1 {
			r = strings.NewReplacer("&", "&amp;", `"`, dq, "<", "&lt;", "'", sq)
		}
		return `"` + r.Replace(val) + `"`
	case '\'':
		r := strings.NewReplacer("&", "&amp;", "'", sq, "<", "&lt;")
		if len(val)%2 == 1 {
			r = strings.NewReplacer("&", "&amp;", "'", sq, "<", "&lt;", `"`, dq)
		}
		return `'` + r.Replace(val) + `'`
	}
	return html.EscapeString(val)
}

func unquotedOK(val string) bool {
	if val == "" {
		return false
	}
	for i := 0; i < len(val); i++ {
		if val[i] >= 0x80 {
			return false
		}
	}
	return !strings.ContainsAny(val, " \t\n\r\"'`=<>/&")
}

func (pr *printer) attrs(as []*Attr, depth int, nl bool) {
	w := pr.sb
	for i, a := range as {
		pr.lastUnquoted = false
		if nl {
			w.WriteString("\n" + strings.Repeat("\t", depth+1))
		} else {
			w.WriteString(" ")
		}
		switch a.Kind {
		case AConst:
			q := a.Quote
			if q == 0 && !unquotedOK(a.Val) {
				q = '"'
			}
			if q == 0 {
				w.WriteString(a.Name + "=" + a.Val)
				pr.lastUnquoted = i == len(as)-1
			} else {
				w.WriteString(a.Name + "=" + quoteAttr(a.Val, q))
			}
		case ABoolConst:
			w.WriteString(a.Name)
		case ABoolExpr:
			w.WriteString(a.Name + "?={ " + a.C.Src() + " }")
		case AExpr:
			w.WriteString(a.Name + "={ " + a.X.Src() + " }")
		case AHref:
			w.WriteString("href={ templ.URL(" + a.X.Src() + ") }")
		case ASpread:
			w.WriteString("{ a.At... }")
		case AOnEvent:
			w.WriteString(a.Name + "={ " + pr.script + "(" + a.X.Src() + pr.scriptArg2 + ") }")
		case AClass:
			var ps []string
			for _, p := range a.Parts {
				if p.CSS != nil {
					ps = append(ps, p.CSS.Name+"()")
					continue
				}
				if p.Cond == nil {
					ps = append(ps, fmt.Sprintf("%q", p.Lit))
				} else {
					ps = append(ps, fmt.Sprintf("templ.KV(%q, %s)", p.Lit, p.Cond.Src()))
				}
			}
			w.WriteString("class={ " + strings.Join(ps, ", ") + " }")
		case ACond:
			w.WriteString("if " + a.C.Src() + " {")
			pr.attrs(a.Then, depth+1, true)
			w.WriteString("\n" + strings.Repeat("\t", depth+1) + "}")
			if len(a.Else) > 0 {
				w.WriteString(" else {")
				pr.attrs(a.Else, depth+1, true)
				w.WriteString("\n" + strings.Repeat("\t", depth+1) + "}")
			}
		}
	}
}

func (pr *printer) node(n *Node, depth int) {
	w := pr.sb
	switch n.Kind {
	case KText:
		w.WriteString(n.Text)
	case KExpr:
		switch n.Sp % 4 {
		case 1:
			w.WriteString("{" + n.X.Src() + "}")
		case 2:
			w.WriteString("{  " + n.X.Src() + "  }")
		case 3:
			w.WriteString("{ " + n.X.Src() + "}")
		default:
			w.WriteString("{ " + n.X.Src() + " }")
		}
	case KElem:
		w.WriteString("<" + n.Name)
		pr.lastUnquoted = false
		pr.attrs(n.Attrs, depth, n.AttrsNL)
		if n.AttrsNL {
			w.WriteString("\n" + strings.Repeat("\t", depth))
		} else if pr.lastUnquoted {
			w.WriteString(" ")
		}
		if n.SelfClose {
			w.WriteString("/>")
			return
		}
		w.WriteString(">")
		if isVoid(n.Name) {
			return
		}
		pr.nodes(n.Kids, depth+1)
		pr.sep(n.End, depth)
		w.WriteString("</" + n.Name + ">")
	case KIf:
		if n.Sp%3 == 1 {
			w.WriteString("if " + n.Cond.Src() + "{")
		} else {
			w.WriteString("if " + n.Cond.Src() + " {")
		}
		pr.nodes(n.Kids, depth+1)
		pr.sep(n.End, depth)
		for _, ei := range n.ElseIfs {
			w.WriteString("} else if " + ei.Cond.Src() + " {")
			pr.nodes(ei.Body, depth+1)
			pr.sep(ei.End, depth)
		}
		if n.HasElse {
			w.WriteString("} else {")
			pr.nodes(n.Else, depth+1)
			pr.sep(n.ElseEnd, depth)
		}
		w.WriteString("}")
	case KFor:
		if n.Sp%3 == 1 {
			w.WriteString("for " + n.ForGo + "  {")
		} else {
			w.WriteString("for " + n.ForGo + " {")
		}
		pr.nodes(n.Kids, depth+1)
		pr.sep(n.End, depth)
		w.WriteString("}")
	case KSwitch:
		if n.SwitchGo == "" {
			w.WriteString("switch {")
		} else {
			w.WriteString("switch " + n.SwitchGo + " {")
		}
		for _, c := range n.Cases {
			w.WriteString("\n" + strings.Repeat("\t", depth+1) + c.Go)
			pr.nodes(c.Body, depth+2)
		}
		w.WriteString("\n" + strings.Repeat("\t", depth) + "}")
	case KCall:
		call := fmt.Sprintf("%s(a, %s)", n.Callee.Name, n.ArgS.Src())
		if n.Legacy {
			w.WriteString("{! " + call + " }")
			return
		}
		w.WriteString("@" + call)
		if n.HasBlock {
			w.WriteString(" {")
			pr.nodes(n.Kids, depth+1)
			pr.sep(n.End, depth)
			w.WriteString("}")
		}
	case KScriptCall:
		w.WriteString("@" + pr.script + "(" + n.ArgS.Src() + pr.scriptArg2 + ")")
	case KSlot:
		if n.Sp%3 == 1 {
			w.WriteString("{children...}")
		} else {
			w.WriteString("{ children... }")
		}
	case KGoCode:
		if n.VarName == "" {
			w.WriteString("{{ " + n.Text + " }}")
		} else {
			w.WriteString("{{ " + n.VarName + " := " + n.VarX.Src() + "; _ = " + n.VarName + " }}")
		}
	case KHTMLComment:
		w.WriteString("<!--" + n.Text + "-->")
	case KGoComment:
		if n.BlockComment {
			w.WriteString("/*" + n.Text + " */")
		} else {
			w.WriteString("//" + n.Text)
		}
	case KDoctype:
		w.WriteString("<!DOCTYPE html>")
	case KRaw:
		w.WriteString("<" + n.Name + ">" + n.Text + "</" + n.Name + ">")
	}
}
