package model

import (
	"fmt"
	"math/rand"
	"strings"
)

// ArgVectors returns n argument vectors: two fixed extremes plus random ones.
func ArgVectors(r *rand.Rand, n int) []*Args {
	var out []*Args
	mk := func(all *bool) *Args {
		a := &Args{At: map[string]any{}}
		for i := range a.S {
			a.S[i] = pick(r, strValues)
		}
		for i := range a.B {
			if all != nil {
				a.B[i] = *all
			} else {
				a.B[i] = r.Intn(2) == 0
			}
		}
		a.N = pick(r, []int{0, 1, 2, 3})
		a.K = pick(r, []int{0, 1, 2, 5})
		nl := pick(r, []int{0, 1, 3})
		a.L = []string{}
		for i := 0; i < nl; i++ {
			a.L = append(a.L, pick(r, strValues[1:]))
		}
		for _, k := range SpreadKeys {
			switch r.Intn(10) {
			case 0:
				a.At[k] = pick(r, strValues)
			case 1:
				a.At[k] = r.Intn(2) == 0
			case 2:
				a.At[k] = map[string]any{"k": "pbool", "b": r.Intn(2) == 0}
			case 3:
				a.At[k] = map[string]any{"k": "pstring", "s": pick(r, strValues)}
			case 4:
				a.At[k] = map[string]any{"k": pick(r, []string{"nilpbool", "nilpstring"})}
			case 5:
				a.At[k] = map[string]any{"k": "kvsb", "s": pick(r, strValues), "b": r.Intn(2) == 0}
			case 6:
				a.At[k] = map[string]any{"k": "kvbb", "b": r.Intn(2) == 0, "b2": r.Intn(2) == 0}
			case 7:
				a.At[k] = map[string]any{"k": "fbool", "b": r.Intn(2) == 0}
			}
		}
		return a
	}
	t, f := true, false
	out = append(out, mk(&t), mk(&f))
	for len(out) < n {
		out = append(out, mk(nil))
	}
	// one vector carries values longer than the runtime's output buffer (4096)
	long := out[len(out)-1]
	long.S[r.Intn(4)] = strings.Repeat("L<", 2600)
	long.L = append(long.L, strings.Repeat("m", 4097))
	return out
}

// ExprSlots maps every traced expression id to a description of the syntactic
// slot it occupies (used to attribute trace discrepancies).
func (p *Program) ExprSlots() map[int]string {
	m := map[int]string{}
	var attrs func(as []*Attr, where string)
	attrs = func(as []*Attr, where string) {
		for _, a := range as {
			switch a.Kind {
			case ABoolExpr:
				m[a.C.ID] = "bool-attribute condition" + where
			case AExpr:
				m[a.X.ID] = "attribute expression" + where
			case AHref:
				m[a.X.ID] = "href expression" + where
			case AOnEvent:
				m[a.X.ID] = "on* script expression" + where
			case AClass:
				for _, pt := range a.Parts {
					if pt.Cond != nil {
						m[pt.Cond.ID] = "class expression" + where
					}
				}
			case ACond:
				m[a.C.ID] = "conditional-attribute condition" + where
				attrs(a.Then, " inside conditional attribute (then)")
				attrs(a.Else, " inside conditional attribute (else)")
			}
		}
	}
	p.Walk(func(n *Node, _ int) {
		attrs(n.Attrs, "")
		if n.X != nil {
			m[n.X.ID] = "string expression"
		}
		if n.Cond != nil {
			m[n.Cond.ID] = "if condition"
		}
		for _, ei := range n.ElseIfs {
			m[ei.Cond.ID] = "else-if condition"
		}
		for _, c := range n.Cases {
			if c.Cond != nil {
				m[c.Cond.ID] = "case condition"
			}
		}
		if n.ArgS != nil {
			m[n.ArgS.ID] = "call argument"
		}
		if n.VarX != nil {
			m[n.VarX.ID] = "raw go block"
		}
	})
	return m
}

// HelpersGo is the Go helper file of every corpus package built from model programs.
const HelpersGo = `package main

import (
	"bytes"
	"context"
	"io"

	"github.com/a-h/templ"
)

// Cap is a hand-written component: it captures its children into a buffer of
// its own and writes them inside <q>…</q> (callers may post-process, cache…).
func Cap(a A, p string) templ.Component {
	return templ.ComponentFunc(func(ctx context.Context, w io.Writer) error {
		children := templ.GetChildren(ctx)
		ctx = templ.ClearChildren(ctx)
		var b bytes.Buffer
		if err := children.Render(ctx, &b); err != nil {
			return err
		}
		_, err := io.WriteString(w, "<q>"+b.String()+"</q>")
		return err
	})
}

type A struct {
	S  [4]string        ` + "`json:\"s\"`" + `
	B  [4]bool          ` + "`json:\"b\"`" + `
	N  int              ` + "`json:\"n\"`" + `
	K  int              ` + "`json:\"k\"`" + `
	L  []string         ` + "`json:\"l\"`" + `
	At templ.Attributes ` + "`json:\"at\"`" + `
}

var trace []int

func ts(id int, s string) string { trace = append(trace, id); return s }
func tse(id int, s string) (string, error) { trace = append(trace, id); return s, nil }
func tb(id int, b bool) bool { trace = append(trace, id); return b }
`

// DriverGo is the main of such a package; %s is replaced by registry entries.
const DriverGo = `package main

import (
	"bufio"
	"bytes"
	"context"
	"encoding/base64"
	"encoding/json"
	"fmt"
	"os"

	"github.com/a-h/templ"
)

var registry = map[string]func(A) templ.Component{
%s}

type job struct {
	P string ` + "`json:\"p\"`" + `
	A A      ` + "`json:\"a\"`" + `
}

type result struct {
	Out   string ` + "`json:\"out\"`" + `
	Err   string ` + "`json:\"err,omitempty\"`" + `
	Trace []int  ` + "`json:\"trace\"`" + `
}

// convertSpread turns the JSON encodings of the non-JSON spread value kinds
// into the Go values templ.RenderAttributes distinguishes.
func convertSpread(at templ.Attributes) {
	for k, v := range at {
		m, ok := v.(map[string]any)
		if !ok {
			continue
		}
		b, _ := m["b"].(bool)
		b2, _ := m["b2"].(bool)
		s, _ := m["s"].(string)
		switch m["k"] {
		case "pbool":
			at[k] = &b
		case "pstring":
			at[k] = &s
		case "nilpbool":
			at[k] = (*bool)(nil)
		case "nilpstring":
			at[k] = (*string)(nil)
		case "kvsb":
			at[k] = templ.KV(s, b)
		case "kvbb":
			at[k] = templ.KV(b, b2)
		case "fbool":
			at[k] = func() bool { return b }
		}
	}
}

func main() {
	sc := bufio.NewScanner(os.Stdin)
	sc.Buffer(make([]byte, 1<<20), 1<<26)
	w := bufio.NewWriter(os.Stdout)
	defer w.Flush()
	for sc.Scan() {
		var j job
		if err := json.Unmarshal(sc.Bytes(), &j); err != nil {
			fmt.Fprintln(os.Stderr, "bad job:", err)
			os.Exit(3)
		}
		var r result
		f, ok := registry[j.P]
		if !ok {
			r.Err = "unknown program " + j.P
		} else {
			trace = nil
			convertSpread(j.A.At)
			var buf bytes.Buffer
			if err := f(j.A).Render(context.Background(), &buf); err != nil {
				r.Err = "render error: " + err.Error()
			}
			r.Out = base64.StdEncoding.EncodeToString(buf.Bytes())
			r.Trace = trace
		}
		b, _ := json.Marshal(r)
		w.Write(b)
		w.WriteByte('\n')
	}
}
`

func RegistryEntry(name string) string {
	return fmt.Sprintf("\t%q: func(a A) templ.Component { return %s(a) },\n", name, name)
}
