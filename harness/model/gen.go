package model

import (
	"fmt"
	"math/rand"
	"strings"
)

// Values used for string arguments: no whitespace (exactness of hostile values
// is C01's business), but with markup metacharacters and the empty string.
var strValues = []string{"", "v1", "v2", "v3", "a<b", `q"r`, "x&y", "it's", "é1", "v4"}

type scope struct {
	strs     []string
	ints     []string
	used     map[string]bool
	isCallee bool
}

func (s *scope) clone() *scope {
	return &scope{strs: append([]string{}, s.strs...), ints: append([]string{}, s.ints...), used: s.used, isCallee: s.isCallee}
}

// CapComponent is the hand-written code component of helpers.go: it renders
// its children into a buffer of its own and writes them inside <q>…</q>.
var CapComponent = &Component{Name: "Cap", Code: true, Callee: true}

// Gen generates programs.
type Gen struct {
	R        *rand.Rand
	P        *Program
	MaxDepth int
	budget   int
	callees  []*Component
	inCallee bool
}

func (g *Gen) id() int { g.P.nextID++; return g.P.nextID }

// NewProgram generates one random program.
func NewProgram(r *rand.Rand, name string, maxDepth, budget int) *Program {
	p := &Program{Name: name}
	g := &Gen{R: r, P: p, MaxDepth: maxDepth, budget: budget}
	if r.Intn(3) == 0 {
		p.Script = &ScriptTemplate{Name: name + "s1", Body: pick(r, []string{"console.log(x)", "if (x < \"b\" && x) { alert(x + 'q') }", "document.title = `t${x}`;"}), Sig: r.Intn(4)}
	}
	if r.Intn(3) == 0 {
		p.CSS = &CSSTemplate{Name: name + "k1", Props: [][2]string{{"color", "red"}, {"margin", "0 auto"}}}
	}
	// callees first so that main can call them
	nc := r.Intn(4)
	for i := 0; i < nc; i++ {
		c := &Component{Name: fmt.Sprintf("%sc%d", name, i+1), Callee: true}
		g.inCallee = true
		sc := &scope{strs: []string{"p"}, used: map[string]bool{}, isCallee: true}
		save := g.budget
		g.budget = 2 + r.Intn(6)
		c.Body = g.nodes(sc, 1, true, ctxTop)
		g.budget = save
		c.End = g.endSep(c.Body, ctxTop)
		g.inCallee = false
		g.callees = append(g.callees, c)
	}
	main := &Component{Name: name}
	sc := &scope{used: map[string]bool{}}
	main.Body = g.nodes(sc, 0, true, ctxTop)
	if r.Intn(6) == 0 {
		main.Body = append([]*Node{{Kind: KDoctype, Before: SepNL}}, main.Body...)
	}
	main.End = g.endSep(main.Body, ctxTop)
	p.Comps = append([]*Component{main}, g.callees...)
	p.GoFunc = r.Intn(3) == 0
	p.CRLF = r.Intn(12) == 0
	return p
}

type pctx int

const (
	ctxTop pctx = iota
	ctxElemSingle
	ctxElemMulti
	ctxFlow // if/for/switch/call-block body
)

func (g *Gen) sexpr(sc *scope) *SExpr {
	x := &SExpr{ID: g.id()}
	r := g.R
	isLit := false
	choices := 6
	switch c := r.Intn(choices + len(sc.strs) + len(sc.ints)); {
	case c == 0 || c == 1:
		i := r.Intn(4)
		x.Go = fmt.Sprintf("a.S[%d]", i)
		x.Eval = func(e *Env) string { return e.A.S[i] }
	case c == 2:
		lit := pick(r, []string{"w1", "w2", "k&l", "m<n", "<b>x</b>", `a"b'c`, "&lt;", `x&y<z>"'`, "é<ü"})
		x.Go = goLiteral(r, lit)
		x.Eval = func(e *Env) string { return lit }
		isLit = true
	case c == 3:
		i := r.Intn(4)
		x.Go = fmt.Sprintf("a.S[%d] + \"x\"", i)
		x.Eval = func(e *Env) string { return e.A.S[i] + "x" }
	case c == 4:
		i := r.Intn(4)
		x.Go = fmt.Sprintf("strings.ToUpper(a.S[%d])", i)
		x.Eval = func(e *Env) string { return strings.ToUpper(e.A.S[i]) }
	case c == 5:
		x.Go = "strconv.Itoa(a.N)"
		x.Eval = func(e *Env) string { return fmt.Sprint(e.A.N) }
	case c < choices+len(sc.strs):
		v := sc.strs[c-choices]
		sc.used[v] = true
		x.Go = v
		x.Eval = func(e *Env) string { return e.Vars[v] }
	default:
		v := sc.ints[c-choices-len(sc.strs)]
		sc.used[v] = true
		x.Go = fmt.Sprintf("strconv.Itoa(%s)", v)
		x.Eval = func(e *Env) string { return fmt.Sprint(e.Ints[v]) }
	}
	x.Err = r.Intn(5) == 0
	x.Multi = r.Intn(8) == 0
	if isLit && r.Intn(2) == 0 {
		x.Bare, x.Err, x.Multi = true, false, false
	}
	return x
}

// goLiteral spells a string as a Go literal in one of the ways the language
// allows: strconv.Quote, every byte as \xNN, every rune as \uNNNN, every byte
// in octal, metacharacters only as escapes, or a raw string.
func goLiteral(r *rand.Rand, lit string) string {
	var sb strings.Builder
	switch r.Intn(6) {
	case 0:
		sb.WriteByte('"')
		for i := 0; i < len(lit); i++ {
			fmt.Fprintf(&sb, `\x%02x`, lit[i])
		}
		sb.WriteByte('"')
	case 1:
		sb.WriteByte('"')
		for _, c := range lit {
			fmt.Fprintf(&sb, `\u%04x`, c)
		}
		sb.WriteByte('"')
	case 2:
		sb.WriteByte('"')
		for i := 0; i < len(lit); i++ {
			fmt.Fprintf(&sb, `\%03o`, lit[i])
		}
		sb.WriteByte('"')
	case 3:
		sb.WriteByte('"')
		for _, c := range lit {
			switch c {
			case '<', '>', '&', '\'':
				fmt.Fprintf(&sb, `\x%02x`, c)
			case '"':
				sb.WriteString(`\u0022`)
			default:
				sb.WriteRune(c)
			}
		}
		sb.WriteByte('"')
	case 4:
		if !strings.Contains(lit, "`") {
			return "`" + lit + "`"
		}
		return fmt.Sprintf("%q", lit)
	default:
		return fmt.Sprintf("%q", lit)
	}
	return sb.String()
}

func (g *Gen) bexpr(sc *scope) *BExpr {
	x := &BExpr{ID: g.id()}
	r := g.R
	switch r.Intn(6) {
	case 0, 1:
		i := r.Intn(4)
		x.Go = fmt.Sprintf("a.B[%d]", i)
		x.Eval = func(e *Env) bool { return e.A.B[i] }
	case 2:
		i := r.Intn(4)
		x.Go = fmt.Sprintf("!a.B[%d]", i)
		x.Eval = func(e *Env) bool { return !e.A.B[i] }
	case 3:
		x.Go = "a.N > 1"
		x.Eval = func(e *Env) bool { return e.A.N > 1 }
	case 4:
		i := r.Intn(4)
		x.Go = fmt.Sprintf("a.S[%d] == \"v1\"", i)
		x.Eval = func(e *Env) bool { return e.A.S[i] == "v1" }
	default:
		x.Go = "len(a.L) > 0"
		x.Eval = func(e *Env) bool { return len(e.A.L) > 0 }
	}
	return x
}

var textWords = []string{"w1", "w2", "w3", "t&amp;u", "&lt;x", "n&#39;t", "w4", "é", "w5.", "w6,", `say"hi"`, `back\slash`, "`tick`", "100%d", `\n`, "it's", "a=b", "日本", "&#x26;amp;", "semi;colon", "-->"}

func (g *Gen) text() string {
	n := 1 + g.R.Intn(3)
	var ws []string
	for i := 0; i < n; i++ {
		ws = append(ws, pick(g.R, textWords))
	}
	sep := " "
	if g.R.Intn(6) == 0 {
		sep = "  "
	}
	return strings.Join(ws, sep)
}

var attrNames = []string{"data-a", "data-b", "title", "id", "lang", "alt", "name", "data-c", "aria-label", "x-y.z", "data_d", ":bind", "@click.away"}

func (g *Gen) attrs(sc *scope, elem string, used map[string]bool, depth int) []*Attr {
	r := g.R
	n := 0
	switch r.Intn(4) {
	case 0:
		n = 0
	case 1, 2:
		n = 1 + r.Intn(2)
	default:
		n = 2 + r.Intn(3)
	}
	var out []*Attr
	name := func() string {
		for tries := 0; tries < 20; tries++ {
			nm := pick(r, attrNames)
			if !used[nm] {
				used[nm] = true
				return nm
			}
		}
		return ""
	}
	for i := 0; i < n; i++ {
		a := &Attr{NL: false}
		k := r.Intn(17)
		switch {
		case k < 4:
			a.Kind = AConst
			a.Name = name()
			a.Val = pick(r, []string{"v", "a b", "x&y", "1<2", "", "it's", `say "hi"`, "é", "a=b", "p>q", `back\slash`, "`tick`", "100%d", `\"`, "&amp;", "a  b", `it's "q"`, `5' x='y' "`, `"'`, `'"' a=b`})
			a.Quote = pick(r, []byte{'"', '"', '\'', '\'', 0})
		case k < 5:
			a.Kind = ABoolConst
			a.Name = name()
		case k < 7:
			a.Kind = ABoolExpr
			a.Name = name()
			a.C = g.bexpr(sc)
		case k < 10:
			a.Kind = AExpr
			a.Name = name()
			a.X = g.sexpr(sc)
		case k < 11:
			if used["\x00spread"] {
				continue
			}
			used["\x00spread"] = true
			a.Kind = ASpread
		case k < 13:
			if depth >= 2 {
				continue
			}
			a.Kind = ACond
			a.C = g.bexpr(sc)
			a.Then = g.attrs(sc, elem, used, depth+1)
			if len(a.Then) == 0 {
				continue
			}
			if r.Intn(2) == 0 {
				a.Else = g.attrs(sc, elem, used, depth+1)
			}
		case k < 15:
			if used["class"] {
				continue
			}
			used["class"] = true
			a.Kind = AClass
			a.Name = "class"
			np := 1 + r.Intn(3)
			seen := map[string]bool{}
			if g.P.CSS != nil && r.Intn(2) == 0 {
				a.Parts = append(a.Parts, ClassPart{CSS: g.P.CSS})
			}
			for j := 0; j < np; j++ {
				lit := pick(r, []string{"c1", "c2", "c3", "c4", "c-5"})
				if seen[lit] {
					continue
				}
				seen[lit] = true
				p := ClassPart{Lit: lit}
				if r.Intn(2) == 0 {
					p.Cond = g.bexpr(sc)
				}
				a.Parts = append(a.Parts, p)
			}
		case k == 15 && g.P.Script != nil:
			a.Kind = AOnEvent
			a.Name = ""
			for _, nm := range []string{"onclick", "onmouseover", "onfocus"} {
				if !used[nm] {
					a.Name = nm
					used[nm] = true
					break
				}
			}
			a.X = g.sexpr(sc)
			a.X.Err, a.X.Multi = false, false
		case k >= 16 || k == 15:
			if elem != "a" || used["href"] {
				continue
			}
			used["href"] = true
			a.Kind = AHref
			a.Name = "href"
			a.X = g.sexpr(sc)
			a.X.Err = false
		}
		if a.Kind != ASpread && a.Kind != ACond && a.Name == "" {
			continue
		}
		out = append(out, a)
	}
	return out
}

// SpreadKeys are the attribute names the spread map may carry (disjoint from attrNames).
var SpreadKeys = []string{"data-s1", "data-s2", "hidden", "data-s3"}

func (g *Gen) nodes(sc *scope, depth int, allowSlot bool, ctx pctx) []*Node {
	r := g.R
	n := 1 + r.Intn(4)
	if depth == 0 {
		n = 2 + r.Intn(5)
	}
	var out []*Node
	for i := 0; i < n && g.budget > 0; i++ {
		g.budget--
		nd := g.node(sc, depth, ctx)
		if nd == nil {
			continue
		}
		if r.Intn(3) == 0 {
			nd.Sp = uint8(r.Intn(256))
		}
		out = append(out, nd)
	}
	if len(out) == 0 {
		out = append(out, &Node{Kind: KText, Text: g.text()})
	}
	g.fixSeps(out, ctx)
	return out
}

func (g *Gen) node(sc *scope, depth int, ctx pctx) *Node {
	r := g.R
	deep := depth >= g.MaxDepth
	for tries := 0; tries < 10; tries++ {
		k := r.Intn(30)
		switch {
		case k < 6:
			return &Node{Kind: KText, Text: g.text()}
		case k < 11:
			return &Node{Kind: KExpr, X: g.sexpr(sc)}
		case k < 17:
			nd := &Node{Kind: KElem}
			switch r.Intn(10) {
			case 0, 1, 2:
				nd.Name = pick(r, blockNames)
			case 3, 4, 5, 6:
				nd.Name = pick(r, inlineNames)
			case 7:
				nd.Name = "a"
			case 8:
				nd.Name = pick(r, voidInline)
			default:
				nd.Name = pick(r, voidBlock)
			}
			used := map[string]bool{}
			nd.Attrs = g.attrs(sc, nd.Name, used, 0)
			nd.AttrsNL = len(nd.Attrs) > 0 && r.Intn(5) == 0
			if isVoid(nd.Name) {
				nd.SelfClose = r.Intn(2) == 0
				return nd
			}
			if deep || r.Intn(6) == 0 {
				if r.Intn(4) == 0 {
					nd.SelfClose = true // <div/> spelling of an empty element
				}
				return nd
			}
			multi := r.Intn(2) == 0
			c := ctxElemSingle
			if multi {
				c = ctxElemMulti
			}
			nd.Kids = g.nodes(sc, depth+1, false, c)
			nd.End = g.endSep(nd.Kids, c)
			return nd
		case k < 20:
			if deep {
				continue
			}
			nd := &Node{Kind: KIf, Cond: g.bexpr(sc)}
			nd.Kids = g.nodes(sc.clone(), depth+1, false, ctxFlow)
			nd.End = g.endSep(nd.Kids, ctxFlow)
			ne := 0
			if r.Intn(4) == 0 {
				ne = 1 + r.Intn(2)
			}
			for j := 0; j < ne; j++ {
				ei := ElseIf{Cond: g.bexpr(sc)}
				ei.Body = g.nodes(sc.clone(), depth+1, false, ctxFlow)
				ei.End = g.endSep(ei.Body, ctxFlow)
				nd.ElseIfs = append(nd.ElseIfs, ei)
			}
			if r.Intn(2) == 0 {
				nd.HasElse = true
				nd.Else = g.nodes(sc.clone(), depth+1, false, ctxFlow)
				nd.ElseEnd = g.endSep(nd.Else, ctxFlow)
			}
			return nd
		case k < 22:
			if deep {
				continue
			}
			return g.forNode(sc, depth)
		case k < 24:
			if deep {
				continue
			}
			return g.switchNode(sc, depth)
		case k < 26:
			if len(g.callees) == 0 && r.Intn(3) != 0 {
				continue // callees may call callees defined before them (no recursion); the code component is always available
			}
			if len(g.callees) == 0 {
				g.callees = nil
				nd := &Node{Kind: KCall, Callee: CapComponent, ArgS: g.sexpr(sc)}
				nd.ArgS.Err, nd.ArgS.Multi = false, false
				if !deep {
					nd.HasBlock = true
					nd.Kids = g.nodes(sc.clone(), depth+1, false, ctxFlow)
					nd.End = g.endSep(nd.Kids, ctxFlow)
				}
				return nd
			}
			callee := pick(r, g.callees)
			if r.Intn(5) == 0 {
				callee = CapComponent
			}
			nd := &Node{Kind: KCall, Callee: callee, ArgS: g.sexpr(sc)}
			nd.ArgS.Err = false
			nd.ArgS.Multi = false
			if !deep && r.Intn(2) == 0 {
				nd.HasBlock = true
				nd.Kids = g.nodes(sc.clone(), depth+1, false, ctxFlow)
				nd.End = g.endSep(nd.Kids, ctxFlow)
			} else if r.Intn(4) == 0 {
				nd.Legacy = true
			}
			return nd
		case k < 27:
			if !sc.isCallee {
				continue
			}
			return &Node{Kind: KSlot}
		case k == 27 && g.P.Script != nil && r.Intn(2) == 0:
			nd := &Node{Kind: KScriptCall, ArgS: g.sexpr(sc)}
			nd.ArgS.Err, nd.ArgS.Multi = false, false
			return nd
		case k < 28:
			v := fmt.Sprintf("v%d", g.id())
			nd := &Node{Kind: KGoCode, VarName: v, VarX: g.sexpr(sc)}
			nd.VarX.Err = false
			sc.strs = append(sc.strs, v)
			return nd
		case k < 29:
			if r.Intn(2) == 0 {
				return &Node{Kind: KHTMLComment, Text: pick(r, []string{" c1 ", "c2", " a b ", " <b>not a tag</b> ", "", ` "q" \ ` + "`t` %s ", " { x } "})}
			}
			return &Node{Kind: KGoComment, Text: pick(r, []string{" note", " TODO: x", ""}), BlockComment: r.Intn(3) == 0}
		default:
			if ctx == ctxElemSingle {
				continue
			}
			if r.Intn(2) == 0 {
				return &Node{Kind: KRaw, Name: "style", Text: pick(r, []string{".a{color:red}", "\n.b > .c { margin: 0 }\n", "", `.q::after{content:"\201C q\\"}`, "a{b:`c`}/* %d */"})}
			}
			return &Node{Kind: KRaw, Name: "script", Text: pick(r, []string{"var x = 1;", "\nif (a < b && c > d) { f(\"s\") }\n", "", "var t = `a${b}c` + 'q\\n' + \"d\";", "// c's\nlet r = 1;\n/* \"q */\n"})}
		}
	}
	return &Node{Kind: KText, Text: g.text()}
}

func (g *Gen) forNode(sc *scope, depth int) *Node {
	r := g.R
	nd := &Node{Kind: KFor}
	inner := sc.clone()
	id := g.id()
	iv, xv := fmt.Sprintf("i%d", id), fmt.Sprintf("x%d", id)
	var bound []string
	switch r.Intn(4) {
	case 0:
		nd.ForGo = fmt.Sprintf("%s, %s := range a.L", iv, xv)
		inner.ints = append(inner.ints, iv)
		inner.strs = append(inner.strs, xv)
		bound = []string{iv, xv}
		nd.ForIter = func(e *Env, body func(*Env)) {
			for i, x := range e.A.L {
				c := e.child()
				c.Ints[iv], c.Vars[xv] = i, x
				body(c)
			}
		}
	case 1:
		nd.ForGo = fmt.Sprintf("_, %s := range a.L", xv)
		inner.strs = append(inner.strs, xv)
		bound = []string{xv}
		nd.ForIter = func(e *Env, body func(*Env)) {
			for _, x := range e.A.L {
				c := e.child()
				c.Vars[xv] = x
				body(c)
			}
		}
	case 2:
		nd.ForGo = fmt.Sprintf("%s := 0; %s < a.N; %s++", iv, iv, iv)
		inner.ints = append(inner.ints, iv)
		bound = []string{iv}
		nd.ForIter = func(e *Env, body func(*Env)) {
			for i := 0; i < e.A.N; i++ {
				c := e.child()
				c.Ints[iv] = i
				body(c)
			}
		}
	default:
		nd.ForGo = "range a.N"
		nd.ForIter = func(e *Env, body func(*Env)) {
			for i := 0; i < e.A.N; i++ {
				body(e.child())
			}
		}
	}
	nd.Kids = g.nodes(inner, depth+1, false, ctxFlow)
	// Go rejects unused variables: reference every bound variable that the
	// body did not use through a raw Go block.
	var unused []string
	for _, b := range bound {
		if !inner.used[b] {
			unused = append(unused, b)
		}
	}
	if len(unused) > 0 {
		nd.Kids = append([]*Node{{Kind: KGoCode, VarName: "", Text: "_ = " + strings.Join(unused, "\n_ = ")}}, nd.Kids...)
		if len(unused) > 1 {
			nd.Kids[0].Text = "_, _ = " + strings.Join(unused, ", ")
		}
		g.fixSeps(nd.Kids, ctxFlow)
	}
	nd.End = g.endSep(nd.Kids, ctxFlow)
	return nd
}

func (g *Gen) switchNode(sc *scope, depth int) *Node {
	r := g.R
	nd := &Node{Kind: KSwitch}
	mode := r.Intn(3)
	mk := func(c Case) Case {
		c.Body = g.nodes(sc.clone(), depth+1, false, ctxFlow)
		c.End = g.endSep(c.Body, ctxFlow)
		if c.End == SepNone {
			c.End = SepNL
		}
		return c
	}
	switch mode {
	case 0:
		nd.SwitchGo = "a.K"
		nd.Cases = append(nd.Cases, mk(Case{Go: "case 0:", Match: func(e *Env) bool { return e.A.K == 0 }}))
		if r.Intn(2) == 0 {
			nd.Cases = append(nd.Cases, mk(Case{Go: "case 1, 2:", Match: func(e *Env) bool { return e.A.K == 1 || e.A.K == 2 }}))
		}
	case 1:
		i := r.Intn(4)
		nd.SwitchGo = fmt.Sprintf("a.S[%d]", i)
		nd.Cases = append(nd.Cases, mk(Case{Go: `case "v1":`, Match: func(e *Env) bool { return e.A.S[i] == "v1" }}))
		nd.Cases = append(nd.Cases, mk(Case{Go: `case "v2", "":`, Match: func(e *Env) bool { return e.A.S[i] == "v2" || e.A.S[i] == "" }}))
	default:
		nd.SwitchGo = ""
		nc := 1 + r.Intn(2)
		for j := 0; j < nc; j++ {
			b := g.bexpr(sc)
			nd.Cases = append(nd.Cases, mk(Case{Go: "case " + b.Src() + ":", Cond: b}))
		}
	}
	if r.Intn(3) != 0 {
		nd.Cases = append(nd.Cases, mk(Case{Go: "default:", Default: true}))
	}
	return nd
}

// startsBrace reports whether the node's source text starts with '{'.
func startsBrace(n *Node) bool {
	switch n.Kind {
	case KExpr, KSlot, KGoCode:
		return true
	case KCall:
		return n.Legacy
	}
	return false
}

func isCallLike(n *Node) bool { return n.Kind == KCall || n.Kind == KScriptCall }

func lineStartKind(n *Node) bool { // must start at the beginning of a line (after indentation) when it follows text
	switch n.Kind {
	case KIf, KFor, KSwitch, KCall, KGoComment, KScriptCall:
		return true
	}
	return false
}

// fixSeps chooses the separators between siblings at random among those the
// grammar allows for the pair.
func (g *Gen) fixSeps(ns []*Node, ctx pctx) {
	r := g.R
	for i, n := range ns {
		var prev *Node
		if i > 0 {
			prev = ns[i-1]
		}
		allowed := []Sep{SepNone, SepSpace, SepNL}
		switch ctx {
		case ctxTop, ctxElemMulti, ctxFlow:
			if prev == nil {
				allowed = []Sep{SepNL}
			}
		case ctxElemSingle:
			if prev == nil {
				allowed = []Sep{SepNone, SepSpace}
			} else {
				allowed = []Sep{SepNone, SepSpace}
			}
		}
		if prev != nil {
			allowed = filterSeps(allowed, prev, n)
		} else if ctx == ctxElemSingle && (n.Kind == KGoComment && !n.BlockComment) {
			allowed = []Sep{SepNL}
		}
		if len(allowed) == 0 {
			allowed = []Sep{SepNL}
		}
		// weight towards newline in multi-line contexts
		if ctx != ctxElemSingle && r.Intn(2) == 0 {
			for _, a := range allowed {
				if a == SepNL {
					allowed = []Sep{SepNL}
				}
			}
		}
		n.Before = pick(r, allowed)
	}
}

func filterSeps(allowed []Sep, prev, n *Node) []Sep {
	var out []Sep
	for _, s := range allowed {
		ok := true
		switch {
		case prev.Kind == KGoComment && !prev.BlockComment:
			ok = s == SepNL // a // comment runs to the end of the line
		case prev.Kind == KText && (lineStartKind(n) || n.Kind == KText && s == SepNone):
			ok = s == SepNL // text swallows keywords, '@' and comment openers on its line
		case prev.Kind == KText && n.Kind == KGoComment:
			ok = s == SepNL
		case isCallLike(prev) && !prev.HasBlock && !prev.Legacy && startsBrace(n):
			ok = s == SepNL // "@c() {" would open a block
		case isCallLike(prev) && !prev.HasBlock && !prev.Legacy && s != SepNL:
			ok = false // keep calls without block at the end of their line
		case prev.Kind == KDoctype:
			ok = s == SepNL
		case n.Kind == KDoctype:
			ok = s == SepNL
		case (prev.Kind == KIf || prev.Kind == KFor || prev.Kind == KSwitch || isCallLike(prev)) && n.Kind == KText && s == SepNone:
			ok = false // "}w1" is fine for the parser but keep text off closing braces
		case n.Kind == KGoComment && s == SepNone && prev.Kind != KText:
			ok = true
		}
		if n.Kind == KGoCode && n.VarName == "" && s != SepNL {
			ok = false
		}
		if ok {
			out = append(out, s)
		}
	}
	return out
}

// endSep chooses the separator before the closing of a container.
func (g *Gen) endSep(ns []*Node, ctx pctx) Sep {
	if len(ns) == 0 {
		if ctx == ctxElemSingle {
			return SepNone
		}
		return SepNL
	}
	last := ns[len(ns)-1]
	if last.Kind == KGoComment && !last.BlockComment {
		return SepNL
	}
	switch ctx {
	case ctxElemSingle:
		if isCallLike(last) && !last.HasBlock && !last.Legacy {
			return SepNone
		}
		return pick(g.R, []Sep{SepNone, SepNone, SepSpace})
	case ctxFlow:
		if g.R.Intn(8) == 0 && last.Kind != KText && !(isCallLike(last) && !last.HasBlock) && last.Kind != KGoCode {
			return pick(g.R, []Sep{SepNone, SepSpace})
		}
		return SepNL
	default:
		return SepNL
	}
}
