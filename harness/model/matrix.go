package model

import "fmt"

// MatrixKinds are the node kinds of the adjacency matrix.
var MatrixKinds = []string{"text", "expr", "expr-empty", "inline", "block", "void-inline", "void-block", "if", "if-false", "for", "switch", "call", "call-block", "call-legacy", "slot", "gocode", "htmlcomment", "gocomment-line", "gocomment-block", "style", "script"}

// MatrixContexts are the parent contexts.
var MatrixContexts = []string{"top", "block-single", "inline-single", "elem-multi", "if-body", "if-body-then-inline", "for-body", "call-block"}

type mxBuilder struct {
	p  *Program
	c1 *Component
}

func (b *mxBuilder) id() int { b.p.nextID++; return b.p.nextID }

func (b *mxBuilder) sx(goSrc string, f func(*Env) string) *SExpr {
	return &SExpr{ID: b.id(), Go: goSrc, Eval: f}
}
func (b *mxBuilder) bx(goSrc string, f func(*Env) bool) *BExpr {
	return &BExpr{ID: b.id(), Go: goSrc, Eval: f}
}

func (b *mxBuilder) callee() *Component {
	if b.c1 == nil {
		b.c1 = &Component{Name: b.p.Name + "c1", Callee: true, End: SepNL}
		b.c1.Body = []*Node{
			{Kind: KElem, Name: "b", Before: SepNL, Kids: []*Node{{Kind: KExpr, X: b.sx("p", func(e *Env) string { return e.Vars["p"] })}}},
			{Kind: KSlot, Before: SepNone},
		}
	}
	return b.c1
}

func (b *mxBuilder) node(kind, tag string) *Node {
	switch kind {
	case "text":
		return &Node{Kind: KText, Text: "t" + tag}
	case "expr":
		return &Node{Kind: KExpr, X: b.sx(`"e`+tag+`"`, func(*Env) string { return "e" + tag })}
	case "expr-empty":
		return &Node{Kind: KExpr, X: b.sx(`a.S[0]`, func(e *Env) string { return e.A.S[0] })}
	case "inline":
		return &Node{Kind: KElem, Name: "i", Kids: []*Node{{Kind: KText, Text: "i" + tag}}}
	case "block":
		return &Node{Kind: KElem, Name: "p", Kids: []*Node{{Kind: KText, Text: "p" + tag}}}
	case "void-inline":
		return &Node{Kind: KElem, Name: "img", Attrs: []*Attr{{Kind: AConst, Name: "alt", Val: tag, Quote: '"'}}}
	case "void-block":
		return &Node{Kind: KElem, Name: "br"}
	case "if", "if-false":
		i := 0
		if kind == "if-false" {
			i = 1
		}
		return &Node{Kind: KIf, Cond: b.bx(fmt.Sprintf("a.B[%d]", i), func(e *Env) bool { return e.A.B[i] }),
			Kids: []*Node{{Kind: KText, Text: "f" + tag, Before: SepNL}}, End: SepNL}
	case "for":
		return &Node{Kind: KFor, ForGo: "range a.N", ForIter: func(e *Env, body func(*Env)) {
			for i := 0; i < e.A.N; i++ {
				body(e.child())
			}
		}, Kids: []*Node{{Kind: KElem, Name: "i", Before: SepNL, Kids: []*Node{{Kind: KText, Text: "l" + tag}}}}, End: SepNL}
	case "switch":
		return &Node{Kind: KSwitch, SwitchGo: "a.K", Cases: []Case{
			{Go: "case 0:", Match: func(e *Env) bool { return e.A.K == 0 }, Body: []*Node{{Kind: KText, Text: "s" + tag, Before: SepNL}}, End: SepNL},
			{Go: "default:", Default: true, Body: []*Node{{Kind: KElem, Name: "i", Before: SepNL, Kids: []*Node{{Kind: KText, Text: "d" + tag}}}}, End: SepNL},
		}}
	case "call", "call-legacy":
		return &Node{Kind: KCall, Callee: b.callee(), ArgS: b.sx(`"c`+tag+`"`, func(*Env) string { return "c" + tag }), Legacy: kind == "call-legacy"}
	case "call-block":
		return &Node{Kind: KCall, Callee: b.callee(), ArgS: b.sx(`"c`+tag+`"`, func(*Env) string { return "c" + tag }), HasBlock: true,
			Kids: []*Node{{Kind: KElem, Name: "em", Before: SepNL, Kids: []*Node{{Kind: KText, Text: "k" + tag}}}}, End: SepNL}
	case "slot":
		return &Node{Kind: KSlot}
	case "gocode":
		return &Node{Kind: KGoCode, VarName: "v" + tag, VarX: b.sx(`"g"`, func(*Env) string { return "g" })}
	case "htmlcomment":
		return &Node{Kind: KHTMLComment, Text: " h" + tag + " "}
	case "gocomment-line":
		return &Node{Kind: KGoComment, Text: " n" + tag}
	case "gocomment-block":
		return &Node{Kind: KGoComment, Text: " n" + tag, BlockComment: true}
	case "style":
		return &Node{Kind: KRaw, Name: "style", Text: ".s" + tag + "{}"}
	case "script":
		return &Node{Kind: KRaw, Name: "script", Text: "var s" + tag + ";"}
	}
	panic("unknown matrix kind " + kind)
}

// MatrixCell builds the program for (context, A, sep, B); ok=false when the
// grammar does not allow that separator between the two kinds.
func MatrixCell(name, ctx, ka string, sep Sep, kb string) (*Program, bool) {
	p := &Program{Name: name}
	b := &mxBuilder{p: p}
	A, B := b.node(ka, "1"), b.node(kb, "2")
	B.Before = sep
	if len(filterSeps([]Sep{sep}, A, B)) == 0 {
		return nil, false
	}
	pair := []*Node{A, B}
	var body []*Node
	end := SepNL
	single := func(name string) {
		A.Before = SepNone
		e := &Node{Kind: KElem, Name: name, Before: SepNL, Kids: pair, End: SepNone}
		if B.Kind == KGoComment && !B.BlockComment {
			e.End = SepNL
		}
		if A.Kind == KGoComment && !A.BlockComment && sep != SepNL {
			pair = nil
		}
		body = []*Node{e}
	}
	switch ctx {
	case "top":
		A.Before = SepNL
		body = pair
	case "block-single":
		single("div")
	case "inline-single":
		single("span")
	case "elem-multi":
		A.Before = SepNL
		body = []*Node{{Kind: KElem, Name: "div", Before: SepNL, Kids: pair, End: SepNL}}
	case "if-body", "if-body-then-inline":
		A.Before = SepNL
		body = []*Node{{Kind: KIf, Before: SepNL, Cond: b.bx("a.B[0]", func(e *Env) bool { return e.A.B[0] }), Kids: pair, End: SepNL}}
		if ctx == "if-body-then-inline" {
			body = append(body, &Node{Kind: KElem, Name: "b", Before: SepNone, Kids: []*Node{{Kind: KText, Text: "z"}}})
		}
	case "for-body":
		A.Before = SepNL
		body = []*Node{{Kind: KFor, Before: SepNL, ForGo: "range a.N", ForIter: func(e *Env, f func(*Env)) {
			for i := 0; i < e.A.N; i++ {
				f(e.child())
			}
		}, Kids: pair, End: SepNL}, {Kind: KText, Text: "after", Before: SepNL}}
	case "call-block":
		A.Before = SepNL
		body = []*Node{{Kind: KCall, Before: SepNL, Callee: b.callee(), ArgS: b.sx(`"o"`, func(*Env) string { return "o" }), HasBlock: true, Kids: pair, End: SepNL}}
	default:
		panic("unknown context " + ctx)
	}
	if pair == nil {
		return nil, false
	}
	hasSlot := ka == "slot" || kb == "slot"
	if hasSlot {
		if ctx == "call-block" || ka == "call" || kb == "call" || ka == "call-block" || kb == "call-block" || ka == "call-legacy" || kb == "call-legacy" {
			return nil, false // slots live in callees; callees do not call in this model
		}
		// the cell lives in a callee; main calls it with a block
		callee := &Component{Name: name + "c2", Callee: true, Body: body, End: end}
		main := &Component{Name: name, End: SepNL, Body: []*Node{{Kind: KCall, Before: SepNL, Callee: callee,
			ArgS: b.sx(`"m"`, func(*Env) string { return "m" }), HasBlock: true,
			Kids: []*Node{{Kind: KElem, Name: "u", Before: SepNL, Kids: []*Node{{Kind: KText, Text: "blk"}}}}, End: SepNL}}}
		p.Comps = []*Component{main, callee}
		return p, true
	}
	p.Comps = []*Component{{Name: name, Body: body, End: end}}
	if b.c1 != nil {
		p.Comps = append(p.Comps, b.c1)
	}
	return p, true
}

// MatrixArgs are the fixed argument vectors of matrix cells.
func MatrixArgs() []*Args {
	return []*Args{
		{S: [4]string{"", "v1", "v2", "v3"}, B: [4]bool{true, false, true, false}, N: 2, K: 0, L: []string{"l1"}, At: map[string]any{}},
		{S: [4]string{"", "v1", "v2", "v3"}, B: [4]bool{true, false, true, false}, N: 1, K: 3, L: []string{}, At: map[string]any{}},
	}
}

// AttrCells are fixed programs exercising every attribute kind directly and
// inside the then / else branch of a conditional attribute (and nested).
func AttrCells(prefix string) []*Program {
	var out []*Program
	n := 0
	mkAttr := func(b *mxBuilder, kind AttrKind) *Attr {
		switch kind {
		case AConst:
			return &Attr{Kind: AConst, Name: "title", Val: `a "q" & <b> it's`, Quote: '\''}
		case ABoolConst:
			return &Attr{Kind: ABoolConst, Name: "hidden"}
		case ABoolExpr:
			return &Attr{Kind: ABoolExpr, Name: "hidden", C: b.bx("a.B[2]", func(e *Env) bool { return e.A.B[2] })}
		case AExpr:
			return &Attr{Kind: AExpr, Name: "title", X: b.sx("a.S[1]", func(e *Env) string { return e.A.S[1] })}
		case ASpread:
			return &Attr{Kind: ASpread}
		case AClass:
			return &Attr{Kind: AClass, Name: "class", Parts: []ClassPart{{Lit: "c1"}, {Lit: "c2", Cond: b.bx("a.B[2]", func(e *Env) bool { return e.A.B[2] })}}}
		case AHref:
			return &Attr{Kind: AHref, Name: "href", X: b.sx("a.S[1]", func(e *Env) string { return e.A.S[1] })}
		case AOnEvent:
			b.p.Script = &ScriptTemplate{Name: b.p.Name + "s1", Body: "console.log(x)"}
			return &Attr{Kind: AOnEvent, Name: "onclick", X: b.sx("a.S[1]", func(e *Env) string { return e.A.S[1] })}
		case AttrKind(100): // class list holding a css component
			b.p.CSS = &CSSTemplate{Name: b.p.Name + "k1", Props: [][2]string{{"color", "red"}}}
			return &Attr{Kind: AClass, Name: "class", Parts: []ClassPart{{CSS: b.p.CSS}, {Lit: "c1"}}}
		}
		return nil
	}
	for _, kind := range []AttrKind{AConst, ABoolConst, ABoolExpr, AExpr, ASpread, AClass, AHref, AOnEvent, AttrKind(100)} {
		for _, place := range []string{"plain", "then", "else", "nested-then", "nested-else"} {
			n++
			p := &Program{Name: fmt.Sprintf("%s%d", prefix, n)}
			b := &mxBuilder{p: p}
			at := mkAttr(b, kind)
			other := &Attr{Kind: AConst, Name: "id", Val: "o", Quote: '"'}
			cond := func() *BExpr { return b.bx("a.B[0]", func(e *Env) bool { return e.A.B[0] }) }
			var attrs []*Attr
			switch place {
			case "plain":
				attrs = []*Attr{at}
			case "then":
				attrs = []*Attr{{Kind: ACond, C: cond(), Then: []*Attr{at}}}
			case "else":
				attrs = []*Attr{{Kind: ACond, C: cond(), Then: []*Attr{other}, Else: []*Attr{at}}}
			case "nested-then":
				attrs = []*Attr{{Kind: ACond, C: cond(), Then: []*Attr{{Kind: ACond, C: b.bx("a.B[1]", func(e *Env) bool { return e.A.B[1] }), Then: []*Attr{at}}}}}
			case "nested-else":
				attrs = []*Attr{{Kind: ACond, C: cond(), Then: []*Attr{other}, Else: []*Attr{{Kind: ACond, C: b.bx("a.B[1]", func(e *Env) bool { return e.A.B[1] }), Then: []*Attr{{Kind: AConst, Name: "lang", Val: "x", Quote: '"'}}, Else: []*Attr{at}}}}}
			}
			p.Comps = []*Component{{Name: p.Name, End: SepNL, Body: []*Node{{Kind: KElem, Name: "a", Before: SepNL, Attrs: attrs, Kids: []*Node{{Kind: KText, Text: "x"}}}}}}
			kn := "class-css-component"
			if kind != AttrKind(100) {
				kn = kind.String()
			}
			p.Label = fmt.Sprintf("attr=%s place=%s", kn, place)
			out = append(out, p)
		}
	}
	return out
}

// AttrCellArgs enumerates the condition bits the attribute cells read.
func AttrCellArgs() []*Args {
	var out []*Args
	for m := 0; m < 8; m++ {
		out = append(out, &Args{S: [4]string{"", `v"1`, "v2", "v3"}, B: [4]bool{m&1 != 0, m&2 != 0, m&4 != 0, false}, N: 1,
			L: []string{}, At: map[string]any{"data-s1": "s<1", "data-s2": true, "hidden2": false,
				"data-s3": map[string]any{"k": "pbool", "b": m&4 != 0}, "data-s4": map[string]any{"k": "pstring", "s": "p\"s"},
				"data-s5": map[string]any{"k": "kvsb", "s": "kv", "b": m&2 != 0}, "data-s6": map[string]any{"k": "kvbb", "b": m&1 != 0, "b2": m&2 != 0},
				"data-s7": map[string]any{"k": "fbool", "b": m&4 == 0}, "data-s8": map[string]any{"k": "nilpbool"}, "data-s9": map[string]any{"k": "nilpstring"}}})
	}
	return out
}

// CallCells are fixed programs exercising chains of component calls: which
// component receives which block, however deep the chain, whether or not an
// intermediate component has a slot of its own.
func CallCells(prefix string) []*Program {
	var out []*Program
	n := 0
	text := func(s string) *Node { return &Node{Kind: KText, Text: s, Before: SepNL} }
	elem := func(name string, kids ...*Node) *Node {
		for _, k := range kids {
			k.Before = SepNone
		}
		return &Node{Kind: KElem, Name: name, Before: SepNL, Kids: kids}
	}
	for _, aSlot := range []string{"none", "before", "after", "twice"} {
		for _, aCalls := range []string{"none", "noblock", "block", "passes-slot", "legacy"} {
			for _, mainBlock := range []bool{false, true} {
				n++
				p := &Program{Name: fmt.Sprintf("%s%d", prefix, n)}
				b := &mxBuilder{p: p}
				// B: innermost callee with a slot
				B := &Component{Name: p.Name + "c2", Callee: true, End: SepNL, Body: []*Node{
					elem("i", &Node{Kind: KText, Text: "B"}), {Kind: KSlot, Before: SepNone}, text("b-end")}}
				// A: intermediate callee
				A := &Component{Name: p.Name + "c1", Callee: true, End: SepNL}
				slot := func() *Node { return &Node{Kind: KSlot, Before: SepNL} }
				if aSlot == "before" || aSlot == "twice" {
					A.Body = append(A.Body, slot())
				}
				A.Body = append(A.Body, elem("b", &Node{Kind: KText, Text: "A"}))
				arg := func(s string) *SExpr { return b.sx(`"`+s+`"`, func(*Env) string { return s }) }
				switch aCalls {
				case "noblock", "legacy":
					A.Body = append(A.Body, &Node{Kind: KCall, Before: SepNL, Callee: B, ArgS: arg("x"), Legacy: aCalls == "legacy"})
				case "block":
					A.Body = append(A.Body, &Node{Kind: KCall, Before: SepNL, Callee: B, ArgS: arg("x"), HasBlock: true, End: SepNL,
						Kids: []*Node{elem("u", &Node{Kind: KText, Text: "inner"})}})
				case "passes-slot":
					A.Body = append(A.Body, &Node{Kind: KCall, Before: SepNL, Callee: B, ArgS: arg("x"), HasBlock: true, End: SepNL,
						Kids: []*Node{slot()}})
				}
				if aSlot == "after" || aSlot == "twice" {
					A.Body = append(A.Body, slot())
				}
				call := &Node{Kind: KCall, Before: SepNL, Callee: A, ArgS: arg("m")}
				if mainBlock {
					call.HasBlock, call.End = true, SepNL
					call.Kids = []*Node{elem("em", &Node{Kind: KText, Text: "outer"})}
				}
				// a second, block-less call to B after A: must receive nothing
				main := &Component{Name: p.Name, End: SepNL, Body: []*Node{text("start"), call,
					{Kind: KCall, Before: SepNL, Callee: B, ArgS: arg("z")}, text("end")}}
				p.Comps = []*Component{main, A, B}
				p.Label = fmt.Sprintf("call-chain a-slot=%s a-calls=%s main-block=%v", aSlot, aCalls, mainBlock)
				out = append(out, p)
			}
		}
	}
	return out
}
