// Package tsrc is the shared program-source generator, pipeline and reducer of
// the formatter properties C08 (formatting preserves meaning) and C09
// (formatting is idempotent).
//
// pipeline.go: the code under test, called in-process exactly as the shipped
// commands call it:
//
//	templ fmt (stdin):   parser.ParseString -> imports.Process (identity when no
//	                     file path is known) -> TemplateFile.Write
//	templ generate:      parser.Parse -> generator.Generate(WithFileName) -> go/format.Source
package tsrc

import (
	"bytes"
	"fmt"
	"go/format"
	"regexp"
	"strings"

	"github.com/a-h/templ/generator"
	parser "github.com/a-h/templ/parser/v2"
)

// Fmt is `templ fmt` on stdin: parse, re-serialise.
func Fmt(src string) (out string, err error) {
	defer func() {
		if r := recover(); r != nil {
			err = fmt.Errorf("panic in formatter: %v", r)
		}
	}()
	t, err := parser.ParseString(src)
	if err != nil {
		return "", err
	}
	var w bytes.Buffer
	if err = t.Write(&w); err != nil {
		return "", err
	}
	return w.String(), nil
}

// Stage names of Gen failures.
const (
	StageParse    = "parse"
	StageGenerate = "generate"
	StageGofmt    = "gofmt"
)

// GenError says where `templ generate` rejected a file.
type GenError struct {
	Stage string
	Err   error
}

func (e *GenError) Error() string { return e.Stage + ": " + e.Err.Error() }

// Gen is `templ generate` for one file: parse + generate + gofmt. A program is
// "accepted" iff Gen returns no error. The result is the gofmt'ed Go text.
func Gen(src string) (goText string, err error) {
	defer func() {
		if r := recover(); r != nil {
			err = &GenError{StageGenerate, fmt.Errorf("panic: %v", r)}
		}
	}()
	t, perr := parser.ParseString(src)
	if perr != nil {
		return "", &GenError{StageParse, perr}
	}
	if strings.TrimSpace(t.Package.Expression.Value) == "" {
		// templ parses a file without a package clause, but what it generates
		// has none either and cannot compile: outside the quantifier
		return "", &GenError{StageParse, errNoPackage}
	}
	var b bytes.Buffer
	if _, gerr := generator.Generate(t, &b, generator.WithFileName("x.templ")); gerr != nil {
		return "", &GenError{StageGenerate, gerr}
	}
	f, ferr := format.Source(b.Bytes())
	if ferr != nil {
		return "", &GenError{StageGofmt, ferr}
	}
	if reEmptyExpr.Match(f) {
		// an empty `{ }` / `{ /* c */ }`: gofmt accepts the generated call without
		// arguments but it cannot compile; such files are outside the quantifier
		return "", &GenError{StageGofmt, errEmptyExpr}
	}
	return string(f), nil
}

var (
	reEmptyExpr  = regexp.MustCompile(`templ\.JoinStringErrs\(\s*(/\*[^*]*\*/\s*|//[^\n]*\n\s*)*\)`)
	errEmptyExpr = fmt.Errorf("string expression without an expression")
	errNoPackage = fmt.Errorf("no package clause")
)

// reErrPos matches the source position inside a templ.Error literal as the
// generator writes it. Nothing else is masked.
var reErrPos = regexp.MustCompile(`(templ\.Error\{Err: templ_7745c5c3_Err, FileName: (?:"(?:[^"\\]|\\.)*"|` + "`[^`]*`" + `), )Line: \d+, Col: \d+\}`)

// Norm is the C08 normal form of generated code: gofmt (already applied by
// Gen) followed by masking `Line: n, Col: m` inside templ.Error{…} literals.
func Norm(goText string) string {
	return reErrPos.ReplaceAllString(goText, "${1}Line: _, Col: _}")
}
