package tsrc

// imports.go: what a generated Go file imports and whether that is what it
// uses — the part of "same program" that `templ fmt <file>` is allowed to
// change (it removes unused imports and adds missing ones).

import (
	"go/ast"
	goparser "go/parser"
	"go/printer"
	"go/token"
	"path"
	"sort"
	"strconv"
	"strings"
)

// stdNames are the standard-library packages the import workload refers to by
// their own name.
var stdNames = map[string]bool{"fmt": true, "strings": true, "strconv": true, "os": true, "sort": true, "time": true, "bytes": true, "errors": true, "io": true, "context": true}

// Imports describes the import section of a Go file.
type Imports struct {
	Set        string // sorted "name path" lines
	Unused     []string
	Missing    []string
	Body       string // the file printed without its import declarations
	Consistent bool   // nothing unused, nothing (std) missing
}

// ImportsOf analyses generated Go text.
func ImportsOf(goText string) (Imports, error) {
	var r Imports
	fset := token.NewFileSet()
	f, err := goparser.ParseFile(fset, "", goText, goparser.ParseComments)
	if err != nil {
		return r, err
	}
	used := map[string]bool{}
	for _, id := range f.Unresolved {
		used[id.Name] = true
	}
	// only identifiers used as the base of a selector count as package uses
	sel := map[string]bool{}
	ast.Inspect(f, func(n ast.Node) bool {
		if s, ok := n.(*ast.SelectorExpr); ok {
			if id, ok := s.X.(*ast.Ident); ok && id.Obj == nil && used[id.Name] {
				sel[id.Name] = true
			}
		}
		return true
	})
	var set []string
	imported := map[string]bool{}
	for _, im := range f.Imports {
		p, _ := strconv.Unquote(im.Path.Value)
		name := path.Base(p)
		if im.Name != nil {
			name = im.Name.Name
		}
		set = append(set, name+" "+p)
		imported[name] = true
		if name != "_" && name != "." && !sel[name] {
			r.Unused = append(r.Unused, name)
		}
	}
	sort.Strings(set)
	r.Set = strings.Join(set, "\n")
	for n := range sel {
		if stdNames[n] && !imported[n] {
			r.Missing = append(r.Missing, n)
		}
	}
	sort.Strings(r.Missing)
	r.Consistent = len(r.Unused) == 0 && len(r.Missing) == 0
	// body without import declarations
	var decls []ast.Decl
	for _, d := range f.Decls {
		if g, ok := d.(*ast.GenDecl); ok && g.Tok == token.IMPORT {
			continue
		}
		decls = append(decls, d)
	}
	f.Decls = decls
	var sb strings.Builder
	if err := (&printer.Config{Mode: printer.UseSpaces | printer.TabIndent, Tabwidth: 8}).Fprint(&sb, fset, f); err != nil {
		return r, err
	}
	r.Body = sb.String()
	return r, nil
}
