package tsrc

// driver.go: the common workload of C08 and C09. It feeds every program source
// to the property's oracle, reduces every failing program to its canonical
// witnesses and reports them through core.

import (
	"fmt"
	"math/rand"
	"runtime"
	"sort"
	"strconv"
	"strings"
	"sync"
	"sync/atomic"

	"verif/core"
)

// Outcome is what an oracle says about one program.
type Outcome struct {
	Accepted bool   // parse + generate + gofmt succeeded (program counts)
	Changed  bool   // fmt(x) != x (non-trivial case)
	Class    string // "" = property holds; otherwise the failure class
	Detail   string // human description of the failure (expected vs observed)
	Note     string // optional evidence counter to bump for this program
}

// Oracle decides one program.
type Oracle func(src string) Outcome

// Case is the replayable form of a violation.
type Case struct {
	Src      string  // reduced failing program
	Origin   string  // where the failing program came from
	Original string  `json:",omitempty"` // the unreduced program (truncated when huge)
	Mode     string  `json:",omitempty"` // "" = templ fmt on stdin, "fmtfile" = templ fmt for a named file (imports.Process), "save", "fmtfail", "fmtdir"
	Dir      *DirJob `json:",omitempty"` // Mode "fmtdir": the directory job
}

// memo caches oracle outcomes by program text (reductions revisit the same
// small programs very often).
type memo struct {
	mu sync.Mutex
	m  map[string]Outcome
}

func (m *memo) get(o Oracle, src string) Outcome {
	m.mu.Lock()
	v, ok := m.m[src]
	m.mu.Unlock()
	if ok {
		return v
	}
	v = o(src)
	m.mu.Lock()
	if len(m.m) < 400000 {
		m.m[src] = v
	}
	m.mu.Unlock()
	return v
}

// Runner holds the state of one check run.
type Runner struct {
	C      *core.Ctx
	Oracle Oracle
	What   string                     // short name of the property's failure, for summaries
	Weaker func(from, to string) bool // see Reduce
	// Mode / KeyPrefix distinguish a second workload of the same property (the
	// named-file path of templ fmt); NoRename keeps the reducer from inventing
	// identifiers (goimports would go looking for packages of that name).
	Mode, KeyPrefix string
	NoRename        bool
	cache           memo

	perOrigin  sync.Map // class of origin -> *[4]int64 {generated, accepted, changed, failing}
	kmu        sync.Mutex
	Found      map[string]*KeyInfo // every canonical witness seen in this run
	redTests   int64
	reductions int64
	textOnly   int64
	extraCores int64
}

// KeyInfo describes one canonical witness found in a run.
type KeyInfo struct {
	Key, Class, Detail, Src string
	Hits                    int
	Origins                 []string // first few programs that reduced to it
	ByOrigin                map[string]int
}

func NewRunner(c *core.Ctx, o Oracle, what string) *Runner {
	return &Runner{C: c, Oracle: o, What: what, cache: memo{m: map[string]Outcome{}}, Found: map[string]*KeyInfo{}}
}

func (r *Runner) note(key, class, detail, src, origin string) {
	r.kmu.Lock()
	defer r.kmu.Unlock()
	ki := r.Found[key]
	if ki == nil {
		ki = &KeyInfo{Key: key, Class: class, Detail: detail, Src: src, ByOrigin: map[string]int{}}
		r.Found[key] = ki
	}
	ki.Hits++
	ki.ByOrigin[originClass(origin)]++
	if len(ki.Origins) < 3 {
		ki.Origins = append(ki.Origins, origin)
	}
}

func (r *Runner) eval(src string) Outcome { return r.cache.get(r.Oracle, src) }

func (r *Runner) pred(src string) string {
	o := r.eval(src)
	if !o.Accepted {
		return ""
	}
	return o.Class
}

func originClass(origin string) string {
	if i := strings.IndexByte(origin, ':'); i > 0 {
		return origin[:i]
	}
	return origin
}

func (r *Runner) count(origin string, idx int) {
	v, _ := r.perOrigin.LoadOrStore(originClass(origin), new([4]int64))
	atomic.AddInt64(&v.(*[4]int64)[idx], 1)
}

// One decides one program and reports all canonical witnesses it contains.
func (r *Runner) One(p Prog) {
	r.count(p.Origin, 0)
	o := r.eval(p.Src)
	if !o.Accepted {
		return
	}
	r.count(p.Origin, 1)
	r.C.Eval(1)
	if o.Note != "" {
		r.C.Add(o.Note, 1)
	}
	if o.Changed {
		r.count(p.Origin, 2)
		r.C.NontrivialStr(p.Src)
	}
	if o.Class == "" {
		return
	}
	r.count(p.Origin, 3)
	// a listed known finding executed as a fixed case is reported under its own
	// listed key, so that every listed finding that still fails prints its line
	if k, ok := strings.CutPrefix(p.Origin, "known:"); ok && r.C.IsKnown(k) {
		r.note(k, o.Class, o.Detail, p.Src, p.Origin)
		r.C.Violate(k, fmt.Sprintf("%s [%s] witness %s (from %s): %s", r.What, o.Class, k, p.Origin, o.Detail),
			Case{Src: p.Src, Origin: p.Origin, Mode: r.Mode})
		return
	}
	r.Report(p, o)
}

// Report reduces a failing program. A program may contain several independent
// causes: after each reduction the surviving (deepest) node of the witness is
// removed from the program and, if it still fails, it is reduced again.
func (r *Runner) Report(p Prog, o Outcome) {
	cur := p.Src
	class := o.Class
	seen := map[string]bool{}
	for round := 0; round < 5; round++ {
		red := ReduceOpt(cur, class, r.pred, r.Weaker, r.NoRename)
		red.Key = r.KeyPrefix + red.Key
		atomic.AddInt64(&r.redTests, int64(red.Tests))
		atomic.AddInt64(&r.reductions, 1)
		if !red.Lift {
			atomic.AddInt64(&r.textOnly, 1)
		}
		ro := r.eval(red.Src)
		detail := ro.Detail
		if !ro.Accepted || ro.Class == "" { // cannot happen: the reducer only keeps failing programs
			red.Src, red.Key, detail = cur, r.KeyPrefix+KeyOf(cur), o.Detail
		}
		if !seen[red.Key] {
			seen[red.Key] = true
			r.note(red.Key, red.Class, detail, red.Src, p.Origin)
			orig := p.Src
			if len(orig) > 4000 {
				orig = orig[:4000] + "…"
			}
			if orig == red.Src {
				orig = ""
			}
			r.C.Violate(red.Key, fmt.Sprintf("%s [%s] witness %s (from %s): %s", r.What, red.Class, red.Key, p.Origin, detail),
				Case{Src: red.Src, Origin: p.Origin, Original: orig, Mode: r.Mode})
		}
		if len(red.Core) == 0 {
			return
		}
		// remove the last surviving node (a leaf of the witness) and look again
		next, ok := RemoveNode(cur, red.Core[len(red.Core)-1])
		if !ok || next == cur {
			return
		}
		next = stabilise(next)
		no := r.eval(next)
		if !no.Accepted || no.Class == "" {
			if len(red.Core) < 2 {
				return
			}
			next, ok = RemoveNode(cur, red.Core[0])
			if !ok {
				return
			}
			next = stabilise(next)
			no = r.eval(next)
			if !no.Accepted || no.Class == "" {
				return
			}
		}
		atomic.AddInt64(&r.extraCores, 1)
		cur, class = next, no.Class
	}
}

// stabilise round-trips a synthetic program through lift and print until the
// text is a fixed point, so that what is evaluated is what the model means.
func stabilise(src string) string {
	for i := 0; i < 4; i++ {
		f, ok := Lift(src)
		if !ok {
			return src
		}
		p := f.String()
		if p == src {
			return src
		}
		src = p
	}
	return src
}

// RemoveNode lifts src and deletes the node with the given ID.
func RemoveNode(src string, id int) (string, bool) {
	f, ok := Lift(src)
	if !ok {
		return "", false
	}
	found := false
	var rec func(list *[]*Node)
	rec = func(list *[]*Node) {
		for i, n := range *list {
			if n.ID == id {
				*list = append(append([]*Node{}, (*list)[:i]...), (*list)[i+1:]...)
				found = true
				return
			}
			for _, kl := range n.lists() {
				rec(kl)
				if found {
					return
				}
			}
		}
	}
	for _, it := range f.Items {
		if rec(&it.Kids); found {
			break
		}
	}
	return f.String(), found
}

// All runs progs on a worker pool.
func (r *Runner) All(progs []Prog) {
	var wg sync.WaitGroup
	ch := make(chan Prog, 256)
	for w := 0; w < runtime.NumCPU(); w++ {
		wg.Add(1)
		go func() {
			defer wg.Done()
			for p := range ch {
				r.One(p)
			}
		}()
	}
	for _, p := range progs {
		ch <- p
	}
	close(ch)
	wg.Wait()
}

// RunFile is the bounded workload of the named-file path: the listed
// witnesses of that path as fixed cases, then the given programs.
func (r *Runner) RunFile(progs []Prog) {
	c := r.C
	if c.ReplayFile != "" {
		var cs Case
		c.LoadReplay(&cs)
		if cs.Mode == r.Mode {
			r.One(Prog{"replay:" + cs.Origin, cs.Src})
			c.NontrivialN(2)
		}
		return
	}
	still := 0
	var gone []string
	for _, k := range c.KnownKeys() {
		if !strings.HasPrefix(k, r.KeyPrefix) {
			continue
		}
		src, ok := KeyProgram(strings.TrimPrefix(k, r.KeyPrefix))
		if !ok {
			gone = append(gone, k+" (key not understood)")
			continue
		}
		if o := r.eval(src); o.Accepted && o.Class != "" {
			still++
		} else {
			gone = append(gone, k)
		}
		r.One(Prog{"known:" + k, src})
	}
	c.Set(r.Mode+"_known_findings_still_failing", still)
	c.Set(r.Mode+"_known_findings_no_longer_failing", gone)
	r.All(progs)
	r.perOrigin.Range(func(k, v any) bool {
		a := v.(*[4]int64)
		c.Set(r.Mode+"_source_"+k.(string), map[string]int64{"generated": a[0], "accepted": a[1], "changed_by_fmt": a[2], "failing": a[3]})
		return true
	})
	var ks []string
	for k, ki := range r.Found {
		ks = append(ks, fmt.Sprintf("%s  [%s, %d programs]", k, ki.Class, ki.Hits))
	}
	sort.Strings(ks)
	c.Set(r.Mode+"_witness_keys", ks)
}

// KeyProgram reconstructs the program a canonical witness key stands for.
func KeyProgram(key string) (string, bool) {
	switch {
	case strings.HasPrefix(key, "src="):
		if b, err := strconv.Unquote(key[4:]); err == nil {
			return BareFileOf(b), true
		}
	case strings.HasPrefix(key, "file="):
		if b, err := strconv.Unquote(key[5:]); err == nil {
			return b, true
		}
	case strings.HasPrefix(key, "ctx="):
		if b, ok := MatrixBody(key); ok {
			return BareFileOf(b), true
		}
	default:
		for _, c := range append(append(AllCells(), ImportCells()...), SaveCells()...) {
			if c.Name == key {
				if c.Body != "" {
					return BareFileOf(c.Body), true
				}
				return c.Src, true
			}
		}
	}
	return "", false
}

// Run is the whole workload.
func (r *Runner) Run() {
	c := r.C
	if c.ReplayFile != "" {
		var cs Case
		c.LoadReplay(&cs)
		if cs.Mode == r.Mode {
			r.One(Prog{"replay:" + cs.Origin, cs.Src})
			c.NontrivialN(2)
		}
		return
	}
	// (0) the listed known findings, as fixed cases
	still, gone := 0, []string{}
	for _, k := range c.KnownKeys() {
		if strings.HasPrefix(k, "fmtfile:") || strings.HasPrefix(k, "save:") || strings.HasPrefix(k, "fmtfail:") || strings.HasPrefix(k, "fmtdir:") {
			continue // belongs to the named-file / format-on-save workload
		}
		src, ok := KeyProgram(k)
		if !ok {
			gone = append(gone, k+" (key not understood)")
			continue
		}
		o := r.eval(src)
		if o.Accepted && o.Class != "" {
			still++
		} else {
			gone = append(gone, k)
		}
		r.One(Prog{"known:" + k, src})
	}
	c.Set("known_findings_listed", len(c.KnownKeys()))
	c.Set("known_findings_still_failing", still)
	if len(gone) > 20 {
		gone = gone[:20]
	}
	c.Set("known_findings_no_longer_failing", gone)

	// (1)(2) repository files
	var progs, corpus []Prog
	corpus = append(corpus, RepoFiles(c.Repo)...)
	corpus = append(corpus, FormatTestData(c.Repo)...)
	corpus = append(corpus, DocBlocks(c.Repo)...)
	if len(corpus) < 50 {
		core.Infra("only %d corpus programs found below %s", len(corpus), c.Repo)
	}
	progs = append(progs, corpus...)
	// (3)(4) enumerated cells
	cells := AllCells()
	for _, cl := range cells {
		o := "matrix:"
		if strings.HasPrefix(cl.Name, "cell=") {
			o = "cell:"
		}
		progs = append(progs, Prog{o + cl.Name, cl.Src})
	}
	c.Set("cells_enumerated", len(cells))
	// (5) random compositions and mutants
	nRand := c.Pick(9000, 60000)
	nMut := c.Pick(8000, 50000)
	rr := c.Rand("random")
	for i := 0; i < nRand; i++ {
		progs = append(progs, Prog{"random:" + itoa(i), Random(rr)})
	}
	// mutation bases: small corpus programs and cells that are accepted and
	// satisfy the property (mutating an input that already fails mostly yields
	// variants of the same failure)
	var bases []string
	addBase := func(src string) {
		if o := r.eval(src); o.Accepted && o.Class == "" {
			bases = append(bases, src)
		}
	}
	for _, p := range corpus {
		if len(p.Src) < 3000 {
			addBase(p.Src)
		}
	}
	for _, cl := range cells {
		if strings.HasPrefix(cl.Name, "cell=") && !cl.NoBase {
			addBase(cl.Src)
		}
	}
	c.Set("mutation_bases", len(bases))
	if len(bases) == 0 {
		core.Infra("no mutation bases")
	}
	// The mutant stream is deliberately independent of VERIF_SEED: token
	// mutants of odd inputs keep finding further genuine formatter defects on
	// inputs nobody writes, so a seed-dependent stream could never be listed
	// completely. With a fixed stream (the thorough tier takes a longer prefix
	// of the same stream) the set of witnesses it produces is finite and is
	// enumerated in KNOWN_FINDINGS.json; VERIF_SEED drives the random
	// compositions, which reduce into the enumerated matrix / cell keys.
	mr := rand.New(rand.NewSource(20260926))
	for i := 0; i < nMut; i++ {
		progs = append(progs, Prog{"mutant:" + itoa(i), Mutate(mr, bases[mr.Intn(len(bases))])})
	}
	r.All(progs)

	// evidence
	r.perOrigin.Range(func(k, v any) bool {
		a := v.(*[4]int64)
		c.Set("source_"+k.(string), map[string]int64{"generated": a[0], "accepted": a[1], "changed_by_fmt": a[2], "failing": a[3]})
		return true
	})
	c.Set("distinct_witness_keys", len(r.Found))
	var ks []string
	for k, ki := range r.Found {
		ks = append(ks, fmt.Sprintf("%s  [%s, %d programs]", k, ki.Class, ki.Hits))
	}
	sort.Strings(ks)
	if len(ks) > 400 {
		ks = ks[:400]
	}
	c.Set("witness_keys", ks)
	c.Set("reductions", r.reductions)
	c.Set("reduction_oracle_runs", r.redTests)
	c.Set("reductions_text_only", r.textOnly)
	c.Set("additional_causes_extracted", r.extraCores)
	for i, p := range progs {
		if i%(len(progs)/5+1) == 0 {
			s := p.Src
			if len(s) > 400 {
				s = s[:400] + "…"
			}
			c.Sample(map[string]string{"origin": p.Origin, "src": s})
		}
	}
}
