package tsrc

// reduce.go: deterministic reduction of a failing program to a canonical
// witness. A predicate (the property's oracle) says whether a candidate text
// still shows the same class of failure; the reducer
//
//  1. lifts the text into the model (falls back to line/token delta debugging
//     on the text when the lifted program no longer fails),
//  2. deletes top-level items, sibling nodes (chunk-wise), attributes and arms,
//     and hoists children over their parents, to a fixed point,
//  3. renames canonically: whole nodes to the canonical spelling of their kind
//     (element names to the class representatives div / span / br / input),
//     identifiers and expressions to the canonical ones, whitespace to
//     none / space / newline, and shortens remaining strings byte-wise,
//
// re-running the oracle after every step. The fixed point's text is the key;
// when it equals an enumerated cell the cell's name is used instead.

import (
	goparser "go/parser"
	"go/token"
	"regexp"
	"strconv"
	"strings"
	"sync"
)

// Pred returns the failure class of src ("" = accepted and property holds, or
// not accepted at all).
type Pred func(src string) string

// Reduced is the result of a reduction.
type Reduced struct {
	Src   string // reduced program
	Key   string // canonical witness
	Class string
	Core  []int // IDs (in the lifted original) of the surviving nodes
	Tests int   // oracle applications spent
	Lift  bool  // reduction happened on the model (false: text only)
}

type reducer struct {
	pred     Pred
	weaker   func(from, to string) bool // may the reduction move from class `from` to the more specific class `to`?
	class    string
	f        *File
	tests    int
	limit    int
	goSort   string
	noRename bool
	rawDone  map[string]bool
}

// KeyOf names a reduced program: the cell name if it is one, else its text.
func KeyOf(src string) string {
	if n := CellName(src); n != "" {
		return n
	}
	if body, ok := BodyOf(src); ok {
		return "src=" + strconv.Quote(body)
	}
	return "file=" + strconv.Quote(src)
}

// Reduce reduces src, which must satisfy pred(src) == class. A candidate is
// kept when it fails with the same class, or with a class that weaker (may be
// nil) declares a more specific form of the current one — mixed classes
// (several causes in one program) can then be taken apart.
func Reduce(src, class string, pred Pred, weaker func(from, to string) bool) Reduced {
	return ReduceOpt(src, class, pred, weaker, false)
}

// ReduceOpt is Reduce; noRename switches the canonical renaming of identifiers
// inside Go text off.
func ReduceOpt(src, class string, pred Pred, weaker func(from, to string) bool, noRename bool) Reduced {
	r := &reducer{pred: pred, weaker: weaker, class: class, limit: 6000, noRename: noRename}
	f, ok := Lift(src)
	if ok && r.test(f.String()) {
		r.f = f
	} else {
		// text phase, then try to lift the small text
		src = r.reduceText(src)
		if f, ok = Lift(src); ok && r.test(f.String()) {
			r.f = f
		} else {
			return Reduced{Src: src, Key: KeyOf(src), Class: r.class, Tests: r.tests}
		}
	}
	direct := ok && f.String() != "" && r.tests == 1
	r.reduceModel()
	out := r.f.String()
	// the reduced text may parse into a different (simpler) structure than the
	// model it was printed from: lift it again until the text is stable
	for i := 0; i < 4; i++ {
		f2, ok2 := Lift(out)
		if !ok2 || (f2.String() != out && !r.test(f2.String())) {
			break
		}
		keep := r.f
		r.f = f2
		r.reduceModel()
		if o2 := r.f.String(); o2 != out {
			out = o2
			direct = false
			continue
		}
		r.f = keep
		break
	}
	res := Reduced{Src: out, Key: KeyOf(out), Class: r.class, Tests: r.tests, Lift: true}
	if direct {
		r.f.Walk(func(n *Node) { res.Core = append(res.Core, n.ID) })
	}
	return res
}

func (r *reducer) test(src string) bool {
	if r.tests >= r.limit {
		return false
	}
	r.tests++
	c := r.pred(src)
	if c == r.class {
		return true
	}
	if c != "" && r.weaker != nil && r.weaker(r.class, c) {
		r.class = c
		return true
	}
	return false
}

// try applies a change; keeps it if the program still fails the same way,
// otherwise calls undo.
func (r *reducer) try(apply, undo func()) bool {
	apply()
	if r.test(r.f.String()) {
		return true
	}
	undo()
	return false
}

// ---- text phase: delta debugging on lines, then on tokens

func (r *reducer) reduceText(src string) string {
	join := func(parts []string) string { return strings.Join(parts, "") }
	for i := 0; i < 6; i++ { // to a fixed point: the result must reduce to itself
		before := src
		lines := strings.SplitAfter(src, "\n")
		lines = ddmin(lines, func(p []string) bool { return r.test(join(p)) })
		toks := shrinkTokens(tokenizeFine(join(lines)), func(p []string) bool { return r.test(join(p)) })
		src = join(toks)
		if src == before {
			break
		}
	}
	return src
}

// ddmin removes chunks of decreasing size (n/2, n/4, … 1) while keep(rest)
// stays true; at size 1 it sweeps until nothing more can be removed.
func ddmin[T any](xs []T, keep func([]T) bool) []T {
	size := len(xs) / 2
	if size < 1 {
		size = 1
	}
	for len(xs) > 0 {
		changed := false
		for i := 0; i+size <= len(xs); {
			cand := append(append([]T{}, xs[:i]...), xs[i+size:]...)
			if keep(cand) {
				xs = cand
				changed = true
			} else {
				i += size
			}
		}
		if size > 1 {
			size /= 2
		} else if !changed {
			break
		}
	}
	return xs
}

// tokenize splits text into whitespace runs, words and single punctuation bytes.
func tokenize(s string) []string {
	var out []string
	cls := func(c byte) int {
		switch {
		case c == ' ' || c == '\t' || c == '\n' || c == '\r':
			return 0
		case c == '_' || c >= '0' && c <= '9' || c >= 'a' && c <= 'z' || c >= 'A' && c <= 'Z' || c >= 0x80:
			return 1
		}
		return 2
	}
	for i := 0; i < len(s); {
		c := cls(s[i])
		j := i + 1
		if c != 2 {
			for j < len(s) && cls(s[j]) == c {
				j++
			}
		}
		out = append(out, s[i:j])
		i = j
	}
	return out
}

// tokenizeFine is tokenize with every whitespace byte as its own token.
func tokenizeFine(s string) []string {
	var out []string
	for _, t := range tokenize(s) {
		if strings.TrimSpace(t) == "" {
			for i := 0; i < len(t); i++ {
				out = append(out, t[i:i+1])
			}
		} else {
			out = append(out, t)
		}
	}
	return out
}

// shrinkTokens removes tokens while keep stays true: chunk-wise to
// 1-minimality, then (short lists) pairs of tokens that only go together
// (an argument and its comma, a pair of braces).
func shrinkTokens(ts []string, keep func([]string) bool) []string {
	ts = ddmin(ts, keep)
	for again := len(ts) <= 24; again; {
		again = false
	pairs:
		for i := 0; i < len(ts); i++ {
			for j := i + 1; j < len(ts); j++ {
				q := append(append(append([]string{}, ts[:i]...), ts[i+1:j]...), ts[j+1:]...)
				if keep(q) {
					ts, again = ddmin(q, keep), true
					break pairs
				}
			}
		}
	}
	return ts
}

// derivable reports whether cand can be obtained from cur by deleting tokens
// and renaming identifiers (whitespace in cand may also stand for any
// whitespace of cur).
func derivable(cand, cur string) bool {
	isIdent := func(t string) bool {
		c := t[0]
		return c == '_' || c >= 'a' && c <= 'z' || c >= 'A' && c <= 'Z'
	}
	isSpace := func(t string) bool { return strings.TrimSpace(t) == "" }
	ct, ut := tokenizeFine(cand), tokenizeFine(cur)
	j := 0
	for _, t := range ct {
		if isSpace(t) && t != "\n" {
			continue // horizontal padding of the candidate is not significant
		}
		for ; j < len(ut); j++ {
			if ut[j] == t || (isIdent(t) && isIdent(ut[j])) {
				break
			}
		}
		if j == len(ut) {
			return false
		}
		j++
	}
	return true
}

// renameIdents maps the identifiers among ts (not Go keywords, not selectors,
// not the first skip tokens) to the given canonical names in order of
// appearance.
func renameIdents(ts []string, skip int, names []string) []string {
	ren := map[string]string{}
	out := make([]string, len(ts))
	comment := 0 // 1: inside /* */, 2: inside // until newline
	for i, t := range ts {
		out[i] = t
		switch {
		case comment == 0 && t == "/" && i+1 < len(ts) && ts[i+1] == "*":
			comment = 1
		case comment == 0 && t == "/" && i+1 < len(ts) && ts[i+1] == "/":
			comment = 2
		case comment == 1 && t == "/" && i > 0 && ts[i-1] == "*":
			comment = 0
		case comment == 2 && t == "\n":
			comment = 0
		}
		if i < skip || comment != 0 {
			continue
		}
		if c := t[0]; (c == '_' || c >= 'a' && c <= 'z' || c >= 'A' && c <= 'Z') && !token.IsKeyword(t) && (i == 0 || ts[i-1] != ".") {
			if _, ok := ren[t]; !ok && len(ren) < len(names) {
				ren[t] = names[len(ren)]
			}
			if v, ok := ren[t]; ok {
				out[i] = v
			}
		}
	}
	return out
}

// ---- model phase

func (r *reducer) reduceModel() {
	for round := 0; round < 8; round++ {
		before := r.f.String()
		r.reduceItems()
		for _, it := range r.f.Items {
			if it.K == ITempl {
				r.reduceList(&it.Kids, 0)
			}
		}
		r.canonItems()
		for _, it := range r.f.Items {
			if it.K == ITempl {
				r.canonList(&it.Kids)
				r.canonWS(&it.Lead, true)
			}
		}
		if r.f.String() == before || r.tests >= r.limit {
			break
		}
	}
}

func (r *reducer) reduceItems() {
	f := r.f
	f.Items = ddmin(f.Items, func(p []*Item) bool {
		old := f.Items
		f.Items = p
		ok := r.test(f.String())
		f.Items = old
		return ok
	})
	if f.Header != "" {
		h := f.Header
		if !r.try(func() { f.Header = "" }, func() { f.Header = h }) {
			done := false
			for _, c := range []string{"// c\n", "//go:build p", "//go:build p\n"} {
				if h == c || (derivable(c, h) && r.try(func() { f.Header = c }, func() { f.Header = h })) {
					done = true
					break
				}
			}
			if !done {
				ts := shrinkTokens(tokenizeFine(h), func(q []string) bool {
					f.Header = strings.Join(q, "")
					ok := r.test(f.String())
					f.Header = h
					return ok
				})
				f.Header = strings.Join(ts, "")
			}
		}
	}
	// raw items: drop lines
	for _, it := range f.Items {
		if it.K != IGo {
			continue
		}
		it := it
		lines := strings.SplitAfter(it.Sig, "\n")
		if len(lines) > 1 {
			lines = ddmin(lines, func(p []string) bool {
				old := it.Sig
				it.Sig = strings.TrimRight(strings.Join(p, ""), "\n")
				ok := it.Sig != "" && r.test(f.String())
				it.Sig = old
				return ok
			})
			it.Sig = strings.TrimRight(strings.Join(lines, ""), "\n")
		}
	}
}

func (r *reducer) canonItems() {
	f := r.f
	if f.Pkg != "package main" && f.Pkg != "" {
		p := f.Pkg
		r.try(func() { f.Pkg = "package main" }, func() { f.Pkg = p })
	}
	names := []string{"t()", "u()", "v()", "w2()"}
	ti := 0
	for i, it := range f.Items {
		it := it
		sep := "\n\n"
		if i == len(f.Items)-1 {
			sep = "\n"
		}
		if it.Sep != sep {
			o := it.Sep
			r.try(func() { it.Sep = sep }, func() { it.Sep = o })
		}
		if r.rawDone == nil {
			r.rawDone = map[string]bool{}
		}
		if it.K == IGo && !r.rawDone[it.Sig] && !r.noRename {
			// css / script templates and Go blocks are opaque text: shorten token-wise, rename identifiers
			o := it.Sig
			// gofmt is not idempotent for a comment in front of a declaration on the same line
			if c := "var a int\n/**/var b int"; o == c || (reCommentThenDecl.MatchString(o) && r.try(func() { it.Sig = c }, func() { it.Sig = o })) {
				r.rawDone[c] = true
				continue
			}
			ts := shrinkTokens(tokenizeFine(o), func(q []string) bool {
				it.Sig = strings.Join(q, "")
				ok := it.Sig != "" && r.test(f.String())
				it.Sig = o
				return ok
			})
			cur := strings.Join(ts, "")
			it.Sig = cur
			if v := strings.Join(renameIdents(ts, 1, []string{"x1", "x2", "x3", "x4", "x5", "x6"}), ""); v != cur && !r.noRename {
				r.try(func() { it.Sig = v }, func() { it.Sig = cur })
			}
			if r.rawDone == nil {
				r.rawDone = map[string]bool{}
			}
			r.rawDone[it.Sig] = true
		}
		if it.K == ITempl {
			if ti < len(names) && it.Sig != names[ti] {
				r.canonGo("func", &it.Sig, names[ti], "t([//\n]a)", "t([\n/**/]a)", "t([/**/\n]a)", "t( /* c */ )")
			}
			ti++
		}
	}
}

// reduceList deletes siblings chunk-wise, hoists children over parents, and
// recurses.
func (r *reducer) reduceList(list *[]*Node, depth int) {
	if depth > 40 {
		return
	}
	f := r.f
	// 1. delete chunks of siblings
	*list = ddmin(*list, func(p []*Node) bool {
		old := *list
		*list = p
		ok := r.test(f.String())
		*list = old
		return ok
	})
	// 2. hoist: replace a node by one of its child lists
	for i := 0; i < len(*list); i++ {
		n := (*list)[i]
		for _, kl := range n.lists() {
			kids := *kl
			old := *list
			var cand []*Node
			cand = append(cand, old[:i]...)
			cand = append(cand, kids...)
			cand = append(cand, old[i+1:]...)
			var last *Node
			var lastAfter string
			if len(kids) > 0 {
				last = kids[len(kids)-1]
				lastAfter = last.After
			}
			if r.try(func() {
				*list = cand
				if last != nil {
					last.After = n.After
				}
			}, func() {
				*list = old
				if last != nil {
					last.After = lastAfter
				}
			}) {
				i--
				break
			}
			// variant: keep the last child's own trailing whitespace
			if last != nil && lastAfter != n.After {
				if r.try(func() { *list = cand }, func() { *list = old }) {
					i--
					break
				}
			}
		}
	}
	// 3. simplify each node's own parts, then recurse
	for _, n := range *list {
		r.reduceNode(n)
		for _, kl := range n.lists() {
			r.reduceList(kl, depth+1)
		}
	}
	// 4. deleting may have become possible after children shrank
	if len(*list) > 1 {
		*list = ddmin(*list, func(p []*Node) bool {
			old := *list
			*list = p
			ok := r.test(f.String())
			*list = old
			return ok
		})
	}
}

func (r *reducer) reduceAttrs(as *[]*Attr) {
	f := r.f
	if len(*as) == 0 {
		return
	}
	*as = ddmin(*as, func(p []*Attr) bool {
		old := *as
		*as = p
		ok := r.test(f.String())
		*as = old
		return ok
	})
	// a conditional attribute -> its then (or else) attributes
	for i := 0; i < len(*as); i++ {
		a := (*as)[i]
		if a.K != ACond {
			continue
		}
		for _, inner := range [][]*Attr{a.Then, a.Else} {
			if len(inner) == 0 {
				continue
			}
			old := *as
			var cand []*Attr
			cand = append(cand, old[:i]...)
			cand = append(cand, inner...)
			cand = append(cand, old[i+1:]...)
			if r.try(func() { *as = cand }, func() { *as = old }) {
				i--
				break
			}
		}
	}
	for _, a := range *as {
		a := a
		if a.K == ACond {
			if a.HasElse {
				oe := a.Else
				r.try(func() { a.HasElse, a.Else = false, nil }, func() { a.HasElse, a.Else = true, oe })
			}
			if len(a.Then) > 1 {
				r.reduceAttrs(&a.Then)
			}
			if len(a.Else) > 1 {
				r.reduceAttrs(&a.Else)
			}
		}
	}
}

func (r *reducer) reduceNode(n *Node) {
	r.reduceAttrs(&n.Attrs)
	// an else-if / else arm body -> the then body
	if n.K == KIf {
		for _, a := range n.Arms {
			o := *n
			if r.try(func() { n.Lead, n.Kids, n.Arms = a.Lead, a.Kids, nil }, func() { *n = o }) {
				break
			}
		}
	}
	// arms: drop from the end
	for len(n.Arms) > 0 {
		if n.K == KSwitch && len(n.Arms) == 1 {
			break
		}
		old := n.Arms
		if !r.try(func() { n.Arms = old[:len(old)-1] }, func() { n.Arms = old }) {
			break
		}
	}
	if n.K == KSwitch && len(n.Arms) > 1 {
		n.Arms = ddmin(n.Arms, func(p []*Arm) bool {
			if len(p) == 0 {
				return false
			}
			old := n.Arms
			n.Arms = p
			ok := r.test(r.f.String())
			n.Arms = old
			return ok
		})
	}
	if n.K == KCall && n.Block && len(n.Kids) == 0 {
		r.try(func() { n.Block = false }, func() { n.Block = true })
	}
}

// ---- canonical renaming

var reCommentThenDecl = regexp.MustCompile(`\*/[ \t]*(var|import|func|const|type)\b`)

var blockNames = map[string]bool{}

func init() {
	for _, s := range strings.Fields("address article aside body blockquote canvas dd div dl dt fieldset figcaption figure footer form h1 h2 h3 h4 h5 h6 head header hr html li main meta nav noscript ol p pre script section table template tfoot turbo-stream ul video title style link td th tr br") {
		blockNames[s] = true
	}
}

var voidNames = map[string]bool{"area": true, "base": true, "br": true, "col": true, "command": true, "embed": true, "hr": true, "img": true, "input": true, "keygen": true, "link": true, "meta": true, "param": true, "source": true, "track": true, "wbr": true}

var (
	leafModels map[string]*Node
	leafOnce   sync.Once
)

func leafModel(name string) *Node {
	leafOnce.Do(func() {
		m := map[string]*Node{}
		for _, k := range LeafKinds {
			f, ok := Lift(BareFileOf(k.Text + "\n"))
			if !ok || len(f.Items) != 1 || len(f.Items[0].Kids) != 1 {
				panic("tsrc: canonical leaf does not lift: " + k.Name)
			}
			n := f.Items[0].Kids[0]
			n.After = ""
			m[k.Name] = n
		}
		leafModels = m
	})
	return leafModels[name]
}

// leafClass says which canonical leaf a node may be replaced by.
func leafClass(n *Node) []string {
	switch n.K {
	case KText:
		return []string{"text", "dash"}
	case KExpr:
		return []string{"expr"}
	case KElem:
		if n.Void || voidNames[n.N] {
			if n.N == "br" || n.N == "hr" {
				return []string{"br"}
			}
			if blockNames[n.N] {
				return nil
			}
			return []string{"input"}
		}
		if blockNames[n.N] {
			return []string{"div"}
		}
		if len(n.Kids) == 0 {
			return []string{"emptyspan", "span"}
		}
		return []string{"span"}
	case KRaw:
		if n.N == "script" {
			return []string{"script"}
		}
		return []string{"style"}
	case KHTMLComment:
		return []string{"htmlcomment"}
	case KGoComment:
		return []string{"gocomment"}
	case KGoLine:
		return []string{"goline"}
	case KCall:
		if n.Block {
			return []string{"callblock"}
		}
		return []string{"call"}
	case KLegacyCall:
		return []string{"legacycall"}
	case KChildren:
		return []string{"children"}
	case KIf:
		if len(n.Arms) > 0 {
			return []string{"if", "ifelse"}
		}
		return []string{"if"}
	case KFor:
		return []string{"if", "for"}
	case KSwitch:
		return []string{"if", "switch"}
	case KGoCode:
		return []string{"gocode"}
	case KDoctype:
		return []string{"doctype"}
	}
	return nil
}

func nodeText(n *Node) string {
	var b strings.Builder
	after := n.After
	n.After = ""
	n.print(&b)
	n.After = after
	return b.String()
}

func wsClass(s string) string {
	switch {
	case s == "":
		return ""
	case strings.Contains(s, "\n"):
		return "\n"
	}
	return " "
}

// canonWS replaces whitespace by the smallest of none < space < newline that
// keeps the failure (whitespace is removable content like everything else).
// brace: the whitespace follows an opening brace and must start with a newline.
func (r *reducer) canonWS(p *string, brace bool) {
	o := *p
	c := wsClass(o)
	cands := []string{"", " ", "\n"}
	if brace {
		cands = []string{"\n"}
	}
	for _, w := range cands {
		if w == o {
			return
		}
		if r.try(func() { *p = w }, func() { *p = o }) {
			return
		}
		if w == c {
			return
		}
	}
}

// canonStr replaces *p by the first canonical candidate that keeps the
// failure; otherwise it shortens it (rune-wise; canonExpr: token-wise).
func (r *reducer) canonStr(p *string, canon ...string)  { r.canonS(p, false, canon...) }
func (r *reducer) canonExpr(p *string, canon ...string) { r.canonS(p, true, canon...) }

// goOK says whether s is still Go of the given sort ("expr": expression list,
// "stmts": statement list, "if"/"for"/"switch": statement head, "case": case
// clause, "func": signature after the func keyword). Shortened expressions
// must stay Go so that witnesses remain programs a person could have written.
func goOK(sort, s string) bool {
	var src string
	switch sort {
	case "expr", "call":
		src = "package p\nvar _ = []any{" + s + "\n}"
	case "stmts":
		src = "package p\nfunc _() {\n" + s + "\n}"
	case "if", "for", "switch":
		src = "package p\nfunc _() {\n" + sort + " " + s + " {\n}\n}"
	case "elseif":
		src = "package p\nfunc _() {\nif x {\n} " + s + " {\n}\n}"
	case "case":
		src = "package p\nfunc _() {\nswitch {\n" + s + "\n}\n}"
	case "func":
		src = "package p\nfunc " + s + " {\n}"
	default:
		return true
	}
	if strings.TrimSpace(s) == "" && sort != "stmts" && sort != "switch" {
		return false
	}
	_, err := goparser.ParseFile(token.NewFileSet(), "", src, 0)
	return err == nil
}

func (r *reducer) canonGo(sort string, p *string, canon ...string) {
	r.goSort = sort
	r.canonS(p, true, canon...)
	r.goSort = ""
}

func (r *reducer) canonS(p *string, tokens bool, canon ...string) {
	o := *p
	// canon[0] is the innocuous spelling of the slot. The further candidates are
	// canonical spellings of inputs that are known to fail; replacing an
	// unrelated value by one of them would turn any failure into a known one,
	// so they are only used when they can be obtained from the current value by
	// deleting tokens and renaming identifiers (i.e. as a canonical choice among
	// the results delta debugging could produce).
	eligible := func(i int, c string) bool { return i == 0 || derivable(c, o) }
	for i, c := range canon {
		if o == c {
			return
		}
		if eligible(i, c) && r.try(func() { *p = c }, func() { *p = o }) {
			return
		}
	}
	// the failure may need the whitespace captured around the expression
	t := strings.TrimSpace(o)
	if lw, tw := o[:strings.Index(o, t)], o[strings.Index(o, t)+len(t):]; t != "" && (lw != "" || tw != "") {
		for i, c := range canon {
			if !eligible(i, c) {
				continue
			}
			for _, v := range []string{c + wsClass(tw), wsClass(lw) + c, wsClass(lw) + c + wsClass(tw)} {
				if v != c && r.try(func() { *p = v }, func() { *p = o }) {
					return
				}
			}
		}
	}
	if tokens {
		ts := shrinkTokens(tokenizeFine(o), func(q []string) bool {
			*p = strings.Join(q, "")
			ok := goOK(r.goSort, *p) && r.test(r.f.String())
			*p = o
			return ok
		})
		// rename the identifiers that are left canonically
		names := []string{"s", "b", "vs", "x1", "x2", "x3", "x4"}
		if r.goSort == "func" {
			names = []string{"t", "a", "b", "c", "d", "e", "f"}
		}
		if r.goSort == "call" {
			names = []string{"c", "s", "b", "vs", "x1", "x2", "x3"}
		}
		cur := strings.Join(ts, "")
		*p = cur
		if v := strings.Join(renameIdents(ts, 0, names), ""); v != cur && !r.noRename && (goOK(r.goSort, v) || !goOK(r.goSort, cur)) {
			if r.try(func() { *p = v }, func() { *p = cur }) {
				cur = v
			}
		}
		// whitespace inside the text: runs -> one space, or one newline if the run has one
		if v := reWSRun.ReplaceAllStringFunc(cur, wsClass); v != cur && (goOK(r.goSort, v) || !goOK(r.goSort, cur)) {
			r.try(func() { *p = v }, func() { *p = cur })
		}
		return
	}
	// shorten unit-wise: a character reference is one unit, everything else a rune
	us := reCharRef.FindAllString(o, -1)
	if len(us) > 200 {
		return
	}
	us = ddmin(us, func(q []string) bool {
		*p = strings.Join(q, "")
		ok := r.test(r.f.String())
		*p = o
		return ok
	})
	*p = strings.Join(us, "")
}

var reWSRun = regexp.MustCompile(`[ \t\r\n]+`)

// reCharRef splits text into character references and single runes.
var reCharRef = regexp.MustCompile(`&#?[0-9A-Za-z]+;|(?s).`)

// canonName tries the given names in order (no shortening: names stay names).
func (r *reducer) canonName(p *string, names ...string) {
	o := *p
	for _, c := range names {
		if o == c {
			return
		}
		if r.try(func() { *p = c }, func() { *p = o }) {
			return
		}
	}
}

// canonList canonicalises every node of a list, children first.
func (r *reducer) canonList(list *[]*Node) {
	for i := range *list {
		n := (*list)[i]
		// whole node -> plain text (the most innocent kind), else -> canonical leaf of its kind
		done := false
		cands := leafClass(n)
		if n.K != KText {
			cands = append([]string{"text"}, cands...)
		}
		for _, lc := range cands {
			m := leafModel(lc)
			if nodeText(n) == nodeText(m) {
				done = true
				break
			}
			c := m.clone()
			c.ID, c.After = n.ID, n.After
			if r.try(func() { (*list)[i] = c }, func() { (*list)[i] = n }) {
				n, done = c, true
				break
			}
		}
		r.canonWS(&n.After, false)
		if done {
			continue
		}
		for _, kl := range n.lists() {
			r.canonList(kl)
		}
		r.canonShell(n)
	}
}

// canonPads sets the padding between braces and expression to one space. An
// empty padding next to whitespace that belongs to the captured expression
// text s is left alone (the space is already there).
func (r *reducer) canonPads(l, rr *string, s string) {
	startsWS := s != "" && isWS(s[0])
	endsWS := s != "" && isWS(s[len(s)-1])
	if *l != " " && !(*l == "" && startsWS) {
		o := *l
		r.try(func() { *l = " " }, func() { *l = o })
	}
	if *rr != " " && !(*rr == "" && endsWS) {
		o := *rr
		r.try(func() { *rr = " " }, func() { *rr = o })
	}
}

// canonShell canonicalises everything of a node except its children.
func (r *reducer) canonShell(n *Node) {
	switch n.K {
	case KText:
		r.canonStr(&n.S, "aa", "-")
	case KExpr:
		r.canonGo("expr", &n.S, "s", "s /* c */", "s // c\n", "/* c */ s")
		r.canonPads(&n.PadL, &n.PadR, n.S)
	case KElem:
		// a void element -> an empty div when the failure does not need voidness
		if n.Void {
			o := *n
			r.try(func() { n.Void, n.Self, n.N = false, false, "div" }, func() { *n = o })
		}
		// name -> class representative, else div
		switch {
		case n.Void && (n.N == "br" || n.N == "hr"):
			r.canonName(&n.N, "br")
		case n.Void && voidNames[n.N] && !blockNames[n.N]:
			r.canonName(&n.N, "input")
		case n.Void && voidNames[n.N]:
			r.canonName(&n.N, "br", "input")
		case blockNames[n.N]:
			r.canonName(&n.N, "div")
		default:
			r.canonName(&n.N, "div", "span")
		}
		if n.Void && !n.Self {
			r.try(func() { n.Self = true }, func() { n.Self = false })
		}
		// an element that only has to span several lines -> text child + newline
		if !n.Void && strings.Contains(nodeText(n), "\n") {
			o := *n
			r.try(func() {
				n.Attrs, n.TagEnd, n.Lead = nil, "", ""
				n.Kids = []*Node{{ID: n.ID, K: KText, S: "aa", After: "\n"}}
			}, func() { *n = o })
		}
		r.canonWS(&n.TagEnd, false)
		r.canonWS(&n.Lead, false)
		r.canonAttrs(n.Attrs)
	case KRaw:
		if len(n.Attrs) > 0 { // the failure may only need the attributes: raw element -> empty div
			o := *n
			if r.try(func() { n.K, n.N, n.S = KElem, "div", "" }, func() { *n = o }) {
				r.canonShell(n)
				return
			}
		}
		if len(n.Attrs) > 0 { // the failure may only need the attributes: raw element -> empty div
			o := *n
			if r.try(func() { n.K, n.N, n.S = KElem, "div", "" }, func() { *n = o }) {
				r.canonShell(n)
				return
			}
		}
		if n.N == "script" {
			r.canonExpr(&n.S, "var x;")
		} else {
			r.canonExpr(&n.S, "p{}")
		}
		r.canonWS(&n.TagEnd, false)
		r.canonAttrs(n.Attrs)
	case KHTMLComment, KGoComment:
		r.canonStr(&n.S, " c ")
	case KGoLine:
		r.canonStr(&n.S, " c")
	case KCall:
		if n.Block {
			r.canonGo("call", &n.S, "w()")
			r.canonStr(&n.BlockPad, " ")
			r.canonWS(&n.Lead, false)
		} else {
			r.canonGo("call", &n.S, "c()", "c( )", "c(\n)", "/* c */ c()", "\n/* c */c()")
		}
	case KLegacyCall:
		r.canonGo("call", &n.S, "c()", "c( )", "c(\n)", "/* c */ c()", "\n/* c */c()")
		r.canonPads(&n.PadL, &n.PadR, n.S)
	case KChildren:
		r.canonPads(&n.PadL, &n.PadR, n.S)
	case KIf:
		r.canonGo(map[Kind]string{KIf: "if", KSwitch: "switch"}[n.K], &n.S, "b")
		r.canonWS(&n.Lead, true)
		for _, a := range n.Arms {
			if a.Head != "else" {
				r.canonGo("elseif", &a.Head, "else if !b")
			}
			r.canonWS(&a.Lead, true)
		}
	case KFor:
		// a for body is laid out and generated like an if body: prefer if
		oldS := n.S
		if r.try(func() { n.K, n.S = KIf, "b" }, func() { n.K, n.S = KFor, oldS }) {
			r.canonWS(&n.Lead, true)
			break
		}
		r.canonGo("for", &n.S, "_, v := range vs")
		r.canonWS(&n.Lead, true)
	case KSwitch:
		if len(n.Arms) == 1 {
			o := *n
			if r.try(func() { n.K, n.S, n.Lead, n.Kids, n.Arms = KIf, "b", o.Arms[0].Lead, o.Arms[0].Kids, nil }, func() { *n = o }) {
				r.canonWS(&n.Lead, true)
				break
			}
		}
		r.canonGo("expr", &n.S, "s")
		r.canonWS(&n.Lead, true)
		for i, a := range n.Arms {
			if strings.HasPrefix(a.Head, "case") {
				r.canonStr(&a.Head, `case "`+string(rune('a'+i%26))+`":`)
			} else {
				r.canonStr(&a.Head, "default:")
			}
			r.canonWS(&a.Lead, true)
		}
	case KGoCode:
		r.canonGo("stmts", &n.S, "v := 1", "v := 1 /* c */", "v := 1 // c\n", "v := 1; u := 2")
		r.canonPads(&n.PadL, &n.PadR, n.S)
	case KDoctype:
		r.canonStr(&n.S, "html")
	}
}

func (r *reducer) canonAttrs(as []*Attr) {
	for _, a := range as {
		if a.Before != " " { // an attribute needs whitespace in front of it
			o := a.Before
			if !r.try(func() { a.Before = " " }, func() { a.Before = o }) && o != "\n" && strings.Contains(o, "\n") {
				r.try(func() { a.Before = "\n" }, func() { a.Before = o })
			}
		}
		switch a.K {
		case AConst:
			r.canonName(&a.Name, "title")
			r.canonStr(&a.Val, "v", "&amp;lt;", "&quot;", "&#39;", "&#39;\"", "&amp;")
			if a.Q != `"` {
				o := a.Q
				r.try(func() { a.Q = `"` }, func() { a.Q = o })
			}
		case ABool:
			r.canonName(&a.Name, "disabled")
		case ABoolExpr:
			r.canonName(&a.Name, "disabled")
			r.canonGo("expr", &a.S, "b", "b /* c */")
			r.canonPads(&a.PadL, &a.PadR, a.S)
		case AExpr:
			r.canonName(&a.Name, "title")
			r.canonGo("expr", &a.S, "s", "s /* c */", "s // c\n", "/* c */ s", "s, // c\n")
			r.canonPads(&a.PadL, &a.PadR, a.S)
		case ASpread:
			r.canonGo("expr", &a.S, "at")
			r.canonPads(&a.PadL, &a.PadR, a.S)
		case ACond:
			r.canonGo("expr", &a.S, "b")
			r.canonAttrs(a.Then)
			r.canonAttrs(a.Else)
			r.canonWS(&a.ThenEnd, false)
			r.canonWS(&a.ElseEnd, false)
		}
	}
}
