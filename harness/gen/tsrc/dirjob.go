package tsrc

// dirjob.go: `templ fmt <dir>` over a directory with several files in ONE
// fmtcmd.Run (the per-file jobs of fmtfile.go run one file per Run): state
// that the command carries from one file to the next is only visible here.

import (
	"fmt"
	"io"
	"math/rand"
	"os"
	"path/filepath"
	"strconv"
	"strings"

	"github.com/a-h/templ/cmd/templ/fmtcmd"
)

// DirFile is one file of a directory job. Formatted says that Src is already
// the formatter's own output for that file (the run should not touch it).
type DirFile struct {
	Src       string
	Formatted bool
}

// DirJob: the files (named f00.templ, f01.templ, … — the walk visits them in
// that order) and the -w worker count (0 = default, one per CPU).
type DirJob struct {
	Files   []DirFile
	Workers int
}

// DirResult: the files after `templ fmt <dir>` and after a second run.
type DirResult struct {
	Err1, Err2     error
	After1, After2 []string
}

// RunDir executes the job.
func RunDir(j DirJob) (res DirResult, err error) {
	if fmtDir == "" {
		return res, fmt.Errorf("FmtFileDir not called")
	}
	defer func() {
		if r := recover(); r != nil {
			err = fmt.Errorf("panic in templ fmt: %v", r)
		}
	}()
	dir := filepath.Join(fmtDir, fmt.Sprintf("dir%d", fmtDirSeq.Add(1)))
	if err = os.MkdirAll(dir, 0o755); err != nil {
		return res, err
	}
	defer os.RemoveAll(dir)
	name := func(i int) string { return filepath.Join(dir, fmt.Sprintf("f%02d.templ", i)) }
	for i, f := range j.Files {
		if err = os.WriteFile(name(i), []byte(f.Src), 0o644); err != nil {
			return res, err
		}
	}
	read := func() []string {
		out := make([]string, len(j.Files))
		for i := range j.Files {
			b, _ := os.ReadFile(name(i))
			out[i] = string(b)
		}
		return out
	}
	args := fmtcmd.Arguments{Files: []string{dir}, WorkerCount: j.Workers}
	res.Err1 = fmtcmd.Run(fmtLog, strings.NewReader(""), io.Discard, args)
	res.After1 = read()
	res.Err2 = fmtcmd.Run(fmtLog, strings.NewReader(""), io.Discard, args)
	res.After2 = read()
	return res, nil
}

// Canonical files of a reduced directory job.
const (
	DirCanonFormatted   = "package main\n\ntempl t() {\n\t<p>x</p>\n}\n"
	DirCanonUnformatted = "package main\n\ntempl t() {\n<p>x</p>\n}\n"
)

// Key is the canonical witness text of a (reduced) job.
func (j DirJob) Key() string {
	var parts []string
	for _, f := range j.Files {
		switch f.Src {
		case DirCanonFormatted:
			parts = append(parts, "formatted")
		case DirCanonUnformatted:
			parts = append(parts, "unformatted")
		default:
			parts = append(parts, strconv.Quote(f.Src))
		}
	}
	return fmt.Sprintf("workers=%d files=[%s]", j.Workers, strings.Join(parts, ","))
}

// ReduceDirJob drops files (chunk-wise) and replaces the remaining ones by the
// canonical formatted / unformatted file, as long as class(job) stays the same.
func ReduceDirJob(j DirJob, class string, classOf func(DirJob) string) DirJob {
	keep := func(fs []DirFile) bool {
		return len(fs) > 0 && classOf(DirJob{Files: fs, Workers: j.Workers}) == class
	}
	j.Files = ddmin(j.Files, keep)
	for i := range j.Files {
		o := j.Files[i]
		c := DirFile{Src: DirCanonUnformatted}
		if o.Formatted {
			c = DirFile{Src: DirCanonFormatted, Formatted: true}
		}
		if o != c {
			j.Files[i] = c
			if !keep(j.Files) {
				j.Files[i] = o
			}
		}
	}
	if j.Workers != 1 {
		w := j.Workers
		j.Workers = 1
		if !keep(j.Files) {
			j.Workers = w
		}
	}
	return j
}

// DirJobs builds n jobs of 2–12 files from bases (whole files the single-file
// path formats correctly and idempotently; fmtOf gives their formatted form),
// each file either as written or already formatted, workers 1 / 2 / default.
func DirJobs(r *rand.Rand, bases []string, fmtOf func(string) string, n int) []DirJob {
	var jobs []DirJob
	for i := 0; i < n; i++ {
		j := DirJob{Workers: []int{1, 1, 2, 0}[r.Intn(4)]}
		k := 2 + r.Intn(11)
		for f := 0; f < k; f++ {
			src := bases[r.Intn(len(bases))]
			if r.Intn(2) == 0 {
				j.Files = append(j.Files, DirFile{Src: fmtOf(src), Formatted: true})
			} else {
				j.Files = append(j.Files, DirFile{Src: src})
			}
		}
		jobs = append(jobs, j)
	}
	// the two smallest shapes explicitly
	jobs = append(jobs,
		DirJob{Workers: 1, Files: []DirFile{{DirCanonFormatted, true}, {DirCanonUnformatted, false}}},
		DirJob{Workers: 1, Files: []DirFile{{DirCanonUnformatted, false}, {DirCanonFormatted, true}, {DirCanonUnformatted, false}}})
	return jobs
}

// DirJudge decides one executed job: class "" = holds. single(src) is the
// result of formatting that file alone (FmtFile).
type DirJudge func(j DirJob, res DirResult, single func(string) (string, error)) (class, detail string)
