package tsrc

// fmtfile.go: `templ fmt` for a file that has a name. With a file name the
// command additionally runs imports.Process (goimports over the generated
// code: unused imports of the templ file are removed, missing ones added)
// between parsing and writing. FmtFile drives the command's own entry point
// (fmtcmd.Run with -stdin-filepath, which executes the same format function
// as the directory walk) in-process.

import (
	"bytes"
	"fmt"
	"io"
	"log/slog"
	"os"
	"path/filepath"
	"strings"
	"sync"
	"sync/atomic"

	"github.com/a-h/templ/cmd/templ/fmtcmd"
)

var (
	fmtDirOnce sync.Once
	fmtDir     string
	fmtLog     = slog.New(slog.NewTextHandler(io.Discard, nil))
)

// FmtFileDir sets the (scratch, outside the repository) module directory the
// formatted files pretend to live in. It gets a go.mod so that import
// resolution is confined to it and the standard library.
func FmtFileDir(dir, repo string) {
	fmtDirOnce.Do(func() {
		fmtDir = dir
		gomod := "module corpus\n\ngo 1.23.0\n\nrequire github.com/a-h/templ v0.0.0\n\nreplace github.com/a-h/templ => " + repo + "\n"
		_ = os.WriteFile(filepath.Join(dir, "go.mod"), []byte(gomod), 0o644)
	})
}

// FmtFile is `templ fmt -stdin-filepath <dir>/x.templ < src`.
func FmtFile(src string) (out string, err error) {
	if fmtDir == "" {
		return "", fmt.Errorf("FmtFileDir not called")
	}
	defer func() {
		if r := recover(); r != nil {
			err = fmt.Errorf("panic in templ fmt: %v", r)
		}
	}()
	var w bytes.Buffer
	err = fmtcmd.Run(fmtLog, strings.NewReader(src), &w, fmtcmd.Arguments{StdinFilepath: filepath.Join(fmtDir, "x.templ")})
	return w.String(), err
}

var fmtDirSeq atomic.Int64

// Verdict is what two CLI runs over a directory holding one file did:
// `templ fmt <dir>` and then `templ fmt -fail <dir>`.
type Verdict struct {
	Err1, Err2     error  // results of the two runs (Err2 != nil: "-fail" failed)
	After1, After2 string // bytes of the file after each run
}

// FmtDirVerdict writes src to <FmtFileDir>/job<n>/x.templ, runs the command
// the way the CLI does for a directory argument (fmtcmd.Run with Files),
// then runs it again with FailIfChanged, and reads the file after each run.
func FmtDirVerdict(src string) (v Verdict, err error) {
	if fmtDir == "" {
		return v, fmt.Errorf("FmtFileDir not called")
	}
	defer func() {
		if r := recover(); r != nil {
			err = fmt.Errorf("panic in templ fmt: %v", r)
		}
	}()
	dir := filepath.Join(fmtDir, fmt.Sprintf("job%d", fmtDirSeq.Add(1)))
	if err = os.MkdirAll(dir, 0o755); err != nil {
		return v, err
	}
	defer os.RemoveAll(dir)
	file := filepath.Join(dir, "x.templ")
	if err = os.WriteFile(file, []byte(src), 0o644); err != nil {
		return v, err
	}
	read := func() string { b, _ := os.ReadFile(file); return string(b) }
	v.Err1 = fmtcmd.Run(fmtLog, strings.NewReader(""), io.Discard, fmtcmd.Arguments{Files: []string{dir}, WorkerCount: 1})
	v.After1 = read()
	v.Err2 = fmtcmd.Run(fmtLog, strings.NewReader(""), io.Discard, fmtcmd.Arguments{Files: []string{dir}, WorkerCount: 1, FailIfChanged: true})
	v.After2 = read()
	return v, nil
}
