package tsrc

// model.go: a small concrete-syntax model of a .templ file. It is precise
// about exactly the things the formatter properties are sensitive to (which
// node kinds are adjacent, what whitespace separates them, how expressions and
// attributes are spelled) and prints itself back to text. Programs produced by
// the generators (matrix, cells, random compositions) are built in this model;
// arbitrary accepted text is lifted into it (lift.go); reduction (reduce.go)
// works on it.

import "strings"

type Kind uint8

const (
	KText        Kind = iota // S
	KExpr                    // {PadL S PadR}
	KElem                    // <N attrs TagEnd> Lead kids </N>   (Void: <N attrs TagEnd/> or <N attrs TagEnd>)
	KRaw                     // <N attrs TagEnd>S</N>             N = style | script
	KHTMLComment             // <!--S-->
	KGoComment               // /*S*/
	KGoLine                  // //S LF
	KCall                    // @S    or   @S BlockPad { Lead kids }
	KLegacyCall              // {!PadL S PadR}
	KChildren                // {PadL children... PadR}
	KIf                      // if S { Lead kids } Arms…          Lead starts with LF
	KFor                     // for S { Lead kids }
	KSwitch                  // switch S { LF Arms… }
	KGoCode                  // {{PadL S PadR}}
	KDoctype                 // <!DOCTYPE S>
)

// Node is one template node together with the whitespace that follows it.
type Node struct {
	ID         int
	K          Kind
	N          string // element name
	S          string // text / expression / comment contents / raw contents
	PadL, PadR string // spelling between brace(s) and expression
	Attrs      []*Attr
	TagEnd     string // whitespace before > or />
	Void       bool   // element without children and close tag
	Self       bool   // void element spelled />
	Block      bool   // call with a children block
	BlockPad   string // between call expression and {
	Lead       string // whitespace after the opener, before the first child
	Kids       []*Node
	Arms       []*Arm // else-if / else arms of an if; cases of a switch
	After      string // whitespace after the node (before the next sibling or the parent's closer)
}

// Arm is `} else if c {`, `} else {`, `case x:` or `default:` with its body.
type Arm struct {
	Head string // "else if c", "else", "case x:", "default:"
	Lead string
	Kids []*Node
}

type AttrKind uint8

const (
	AConst    AttrKind = iota // Name=Q Val Q      Q = `"` | `'` | `` (unquoted); Val is the raw (escaped) text
	ABool                     // Name
	ABoolExpr                 // Name?={PadL S PadR}
	AExpr                     // Name={PadL S PadR}
	ASpread                   // {PadL S... PadR}
	ACond                     // if S { Then… ThenEnd } [else { Else… ElseEnd }]
)

type Attr struct {
	K                AttrKind
	Before           string // whitespace in front of the attribute
	Name             string
	Q, Val           string
	S                string
	PadL, PadR       string
	Then, Else       []*Attr
	ThenEnd, ElseEnd string // whitespace before the closing brace
	HasElse          bool
}

type ItemKind uint8

const (
	IGo     ItemKind = iota // raw Go code between templates (imports, funcs, comments)
	ITempl                  // templ Sig { Lead kids }   Lead normally starts with LF
	ICSS                    // css Sig { Body }
	IScript                 // script Sig { Body }
)

// Item is a top-level member of a file.
type Item struct {
	K    ItemKind
	Sig  string // "t(a string)" / Go text
	Lead string
	Kids []*Node
	Body string // css / script body text (between the braces)
	Sep  string // whitespace after the item
}

// File is a whole .templ file.
type File struct {
	Header string // text before the package clause (comments, build tags)
	Pkg    string // "package main"
	Items  []*Item
	nextID int
}

func (f *File) newID() int { f.nextID++; return f.nextID }

// ---- printing

func (f *File) String() string {
	var b strings.Builder
	b.WriteString(f.Header)
	if f.Pkg != "" { // templ also accepts files without a package clause
		b.WriteString(f.Pkg)
		b.WriteString("\n\n")
	}
	for _, it := range f.Items {
		it.print(&b)
	}
	return b.String()
}

func (it *Item) print(b *strings.Builder) {
	switch it.K {
	case IGo:
		b.WriteString(it.Sig)
	case ITempl:
		b.WriteString("templ " + it.Sig + " {" + it.Lead)
		printNodes(b, it.Kids)
		b.WriteString("}")
	case ICSS:
		b.WriteString("css " + it.Sig + " {" + it.Body + "}")
	case IScript:
		b.WriteString("script " + it.Sig + " {" + it.Body + "}")
	}
	b.WriteString(it.Sep)
}

func printNodes(b *strings.Builder, ns []*Node) {
	for _, n := range ns {
		n.print(b)
	}
}

func printAttrs(b *strings.Builder, as []*Attr) {
	for _, a := range as {
		b.WriteString(a.Before)
		switch a.K {
		case AConst:
			b.WriteString(a.Name + "=" + a.Q + a.Val + a.Q)
		case ABool:
			b.WriteString(a.Name)
		case ABoolExpr:
			b.WriteString(a.Name + "?={" + a.PadL + a.S + a.PadR + "}")
		case AExpr:
			b.WriteString(a.Name + "={" + a.PadL + a.S + a.PadR + "}")
		case ASpread:
			b.WriteString("{" + a.PadL + a.S + "..." + a.PadR + "}")
		case ACond:
			b.WriteString("if " + a.S + " {")
			printAttrs(b, a.Then)
			b.WriteString(a.ThenEnd + "}")
			if a.HasElse {
				b.WriteString(" else {")
				printAttrs(b, a.Else)
				b.WriteString(a.ElseEnd + "}")
			}
		}
	}
}

func (n *Node) print(b *strings.Builder) {
	switch n.K {
	case KText:
		b.WriteString(n.S)
	case KExpr:
		b.WriteString("{" + n.PadL + n.S + n.PadR + "}")
	case KElem:
		b.WriteString("<" + n.N)
		printAttrs(b, n.Attrs)
		b.WriteString(n.TagEnd)
		if n.Void {
			if n.Self {
				b.WriteString("/>")
			} else {
				b.WriteString(">")
			}
			break
		}
		b.WriteString(">" + n.Lead)
		printNodes(b, n.Kids)
		b.WriteString("</" + n.N + ">")
	case KRaw:
		b.WriteString("<" + n.N)
		printAttrs(b, n.Attrs)
		b.WriteString(n.TagEnd + ">" + n.S + "</" + n.N + ">")
	case KHTMLComment:
		b.WriteString("<!--" + n.S + "-->")
	case KGoComment:
		b.WriteString("/*" + n.S + "*/")
	case KGoLine:
		b.WriteString("//" + n.S)
		if !strings.HasPrefix(n.After, "\n") && !strings.HasPrefix(n.After, "\r\n") {
			b.WriteString("\n")
		}
	case KCall:
		b.WriteString("@" + n.S)
		if n.Block {
			b.WriteString(n.BlockPad + "{" + n.Lead)
			printNodes(b, n.Kids)
			b.WriteString("}")
		}
	case KLegacyCall:
		b.WriteString("{!" + n.PadL + n.S + n.PadR + "}")
	case KChildren:
		b.WriteString("{" + n.PadL + "children..." + n.PadR + "}")
	case KIf:
		b.WriteString("if " + n.S + " {" + n.Lead)
		printNodes(b, n.Kids)
		for _, a := range n.Arms {
			b.WriteString("} " + a.Head + " {" + a.Lead)
			printNodes(b, a.Kids)
		}
		b.WriteString("}")
	case KFor:
		b.WriteString("for " + n.S + " {" + n.Lead)
		printNodes(b, n.Kids)
		b.WriteString("}")
	case KSwitch:
		b.WriteString("switch " + n.S + " {" + n.Lead)
		for _, a := range n.Arms {
			b.WriteString(a.Head + a.Lead)
			printNodes(b, a.Kids)
		}
		b.WriteString("}")
	case KGoCode:
		b.WriteString("{{" + n.PadL + n.S + n.PadR + "}}")
	case KDoctype:
		b.WriteString("<!DOCTYPE " + n.S + ">")
	}
	b.WriteString(n.After)
}

// ---- copying and walking

func (f *File) Clone() *File {
	g := *f
	g.Items = make([]*Item, len(f.Items))
	for i, it := range f.Items {
		c := *it
		c.Kids = cloneNodes(it.Kids)
		g.Items[i] = &c
	}
	return &g
}

func cloneNodes(ns []*Node) []*Node {
	if ns == nil {
		return nil
	}
	out := make([]*Node, len(ns))
	for i, n := range ns {
		out[i] = n.clone()
	}
	return out
}

func cloneAttrs(as []*Attr) []*Attr {
	if as == nil {
		return nil
	}
	out := make([]*Attr, len(as))
	for i, a := range as {
		c := *a
		c.Then, c.Else = cloneAttrs(a.Then), cloneAttrs(a.Else)
		out[i] = &c
	}
	return out
}

func (n *Node) clone() *Node {
	c := *n
	c.Attrs = cloneAttrs(n.Attrs)
	c.Kids = cloneNodes(n.Kids)
	if n.Arms != nil {
		c.Arms = make([]*Arm, len(n.Arms))
		for i, a := range n.Arms {
			ac := *a
			ac.Kids = cloneNodes(a.Kids)
			c.Arms[i] = &ac
		}
	}
	return &c
}

// lists returns pointers to every child list of n (element/call/if/for body
// and every arm body), in source order.
func (n *Node) lists() []*[]*Node {
	var ls []*[]*Node
	switch n.K {
	case KElem:
		if !n.Void {
			ls = append(ls, &n.Kids)
		}
	case KCall:
		if n.Block {
			ls = append(ls, &n.Kids)
		}
	case KIf, KFor:
		ls = append(ls, &n.Kids)
	}
	for _, a := range n.Arms {
		ls = append(ls, &a.Kids)
	}
	return ls
}

// Walk visits every node of the file (pre-order).
func (f *File) Walk(fn func(n *Node)) {
	var rec func(ns []*Node)
	rec = func(ns []*Node) {
		for _, n := range ns {
			fn(n)
			for _, l := range n.lists() {
				rec(*l)
			}
		}
	}
	for _, it := range f.Items {
		rec(it.Kids)
	}
}

// CountNodes returns the number of nodes in the file.
func (f *File) CountNodes() int {
	c := 0
	f.Walk(func(*Node) { c++ })
	return c
}

// NewFile returns an empty `package main` file.
func NewFile() *File { return &File{Pkg: "package main"} }

// AddTempl appends `templ sig { kids }`.
func (f *File) AddTempl(sig string, kids ...*Node) *Item {
	it := &Item{K: ITempl, Sig: sig, Lead: "\n", Kids: kids, Sep: "\n\n"}
	f.Items = append(f.Items, it)
	f.number(kids)
	return it
}

// AddGo appends raw Go code.
func (f *File) AddGo(code string) {
	f.Items = append(f.Items, &Item{K: IGo, Sig: code, Sep: "\n\n"})
}

func (f *File) number(ns []*Node) {
	for _, n := range ns {
		if n.ID == 0 {
			n.ID = f.newID()
		}
		for _, l := range n.lists() {
			f.number(*l)
		}
	}
}
