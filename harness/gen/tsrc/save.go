package tsrc

// save.go: format-on-save. The document is opened in templ's LSP server
// (cmd/templ/lspcmd/proxy.Server, no gopls behind it), textDocument/formatting
// is requested, and the returned TextEdits are applied to the ORIGINAL text by
// an LSP edit applier of our own (ApplyEdits below: what an editor does), which
// gives the text the editor saves.

import (
	"context"
	"fmt"
	"sort"
	"strings"
	"unicode/utf8"

	"github.com/a-h/templ/cmd/templ/lspcmd/proxy"
	lsp "github.com/a-h/templ/lsp/protocol"
)

// editorStub is an editor that ignores the diagnostics the server publishes.
type editorStub struct{ lsp.Client }

func (editorStub) PublishDiagnostics(context.Context, *lsp.PublishDiagnosticsParams) error {
	return nil
}

// Edit is one LSP TextEdit (positions: zero-based line, UTF-16 character).
type Edit struct {
	SL, SC, EL, EC uint32
	Text           string
}

// Saved is the outcome of one format-on-save.
type Saved struct {
	Edits      []Edit
	Text       string // what the editor holds (and saves) after applying the edits
	ServerCopy string // what the server believes the document is afterwards
}

// FormatOnSave opens src as <FmtFileDir>/x.templ in a fresh server and formats it.
func FormatOnSave(src string) (sv Saved, err error) {
	if fmtDir == "" {
		return sv, fmt.Errorf("FmtFileDir not called")
	}
	defer func() {
		if r := recover(); r != nil {
			err = fmt.Errorf("panic in Server.Formatting: %v", r)
		}
	}()
	uri := "file://" + fmtDir + "/x.templ"
	s := proxy.NewServer(fmtLog, nil, proxy.NewSourceMapCache(), proxy.NewDiagnosticCache(), true)
	s.TemplSource.Set(uri, proxy.NewDocument(fmtLog, src))
	ctx := lsp.WithClient(context.Background(), editorStub{})
	edits, err := s.Formatting(ctx, &lsp.DocumentFormattingParams{TextDocument: lsp.TextDocumentIdentifier{URI: lsp.DocumentURI(uri)}})
	if err != nil {
		return sv, err
	}
	for _, e := range edits {
		sv.Edits = append(sv.Edits, Edit{e.Range.Start.Line, e.Range.Start.Character, e.Range.End.Line, e.Range.End.Character, e.NewText})
	}
	sv.Text = ApplyEdits(src, sv.Edits)
	if d, ok := s.TemplSource.Get(uri); ok {
		sv.ServerCopy = d.String()
	}
	return sv, nil
}

// ApplyEdits is the reference LSP client: the document is a sequence of lines
// separated by "\n"; a position is (line, UTF-16 code unit offset in the
// line); a line beyond the last line means the end of the document, a
// character beyond the end of its line means the end of that line; all ranges
// refer to the original text, so the edits are applied from the back.
func ApplyEdits(doc string, edits []Edit) string {
	starts := []int{0}
	for i := 0; i < len(doc); i++ {
		if doc[i] == '\n' {
			starts = append(starts, i+1)
		}
	}
	offset := func(line, char uint32) int {
		if int64(line) >= int64(len(starts)) {
			return len(doc)
		}
		from := starts[line]
		to := len(doc)
		if int(line)+1 < len(starts) {
			to = starts[line+1] - 1 // before the "\n"
		}
		units := uint32(0)
		i := from
		for i < to && units < char {
			r, n := utf8.DecodeRuneInString(doc[i:to])
			if r >= 0x10000 {
				units += 2
			} else {
				units++
			}
			i += n
		}
		return i
	}
	type span struct {
		from, to int
		text     string
		order    int
	}
	var sp []span
	for i, e := range edits {
		a, b := offset(e.SL, e.SC), offset(e.EL, e.EC)
		if b < a {
			a, b = b, a
		}
		sp = append(sp, span{a, b, e.Text, i})
	}
	sort.SliceStable(sp, func(i, j int) bool { return sp[i].from > sp[j].from })
	for _, s := range sp {
		doc = doc[:s.from] + s.text + doc[s.to:]
	}
	return doc
}

// EditShape describes a list of edits relative to the document they apply to
// (evidence: which shapes of edits the server produced).
func EditShape(doc string, edits []Edit) string {
	if len(edits) == 0 {
		return "no edits"
	}
	lines := uint32(strings.Count(doc, "\n") + 1)
	var parts []string
	for _, e := range edits {
		rel := func(l uint32) string {
			switch {
			case l == 0:
				return "0"
			case l == lines:
				return "lines"
			case l == lines-1:
				return "lines-1"
			case l > lines:
				return ">lines"
			}
			return "<lines"
		}
		c := func(ch uint32) string {
			if ch == 0 {
				return "0"
			}
			return "n"
		}
		parts = append(parts, fmt.Sprintf("%s:%s-%s:%s", rel(e.SL), c(e.SC), rel(e.EL), c(e.EC)))
	}
	return fmt.Sprintf("%d edit(s) %s", len(edits), strings.Join(parts, ","))
}
