package tsrc

// lift.go: turn arbitrary accepted .templ text into the model, using templ's
// own parser for the structure and the source text for the spelling details
// the syntax tree does not keep (brace padding, raw attribute values). Lifting
// is only a reduction aid: whether the lifted program still shows the failure
// is always re-decided by the oracle, so an unfaithful lift can only make a
// witness less reduced, never change a verdict.

import (
	"strings"

	parser "github.com/a-h/templ/parser/v2"
)

// Lift parses src and rebuilds it as a model file. ok=false if src does not parse.
func Lift(src string) (f *File, ok bool) {
	defer func() {
		if r := recover(); r != nil {
			f, ok = nil, false
		}
	}()
	tf, err := parser.ParseString(src)
	if err != nil {
		return nil, false
	}
	l := lifter{src: src}
	f = &File{Pkg: tf.Package.Expression.Value}
	for _, h := range tf.Header {
		f.Header += h.Expression.Value
	}
	for _, n := range tf.Nodes {
		switch n := n.(type) {
		case parser.TemplateFileGoExpression:
			f.Items = append(f.Items, &Item{K: IGo, Sig: n.Expression.Value, Sep: "\n\n"})
		case parser.HTMLTemplate:
			it := &Item{K: ITempl, Sig: n.Expression.Value, Sep: "\n\n", Lead: "\n"}
			it.Lead, it.Kids = l.nodes(n.Children, "\n")
			f.Items = append(f.Items, it)
		case parser.CSSTemplate:
			f.Items = append(f.Items, &Item{K: IGo, Sig: l.cut(n.Range), Sep: "\n\n"})
		case parser.ScriptTemplate:
			f.Items = append(f.Items, &Item{K: IGo, Sig: l.cut(n.Range), Sep: "\n\n"})
		}
	}
	for _, it := range f.Items {
		f.number(it.Kids)
	}
	if n := len(f.Items); n > 0 { // the last item ends the way the source ends
		f.Items[n-1].Sep = src[len(strings.TrimRight(src, " \t\r\n")):]
	}
	return f, true
}

type lifter struct{ src string }

func (l lifter) cut(r parser.Range) string {
	a, b := int(r.From.Index), int(r.To.Index)
	if a < 0 || b > len(l.src) || a > b {
		return ""
	}
	return l.src[a:b]
}

func isWS(c byte) bool { return c == ' ' || c == '\t' || c == '\n' || c == '\r' }

// pads recovers the whitespace between the opening brace(s) and the expression
// and between the expression and the closing brace(s).
func (l lifter) pads(e parser.Expression, open, close string) (pl, pr string) {
	a, b := int(e.Range.From.Index), int(e.Range.To.Index)
	if a < 0 || b > len(l.src) || a > b || l.src[a:b] != e.Value {
		return " ", " "
	}
	i := a
	for i > 0 && isWS(l.src[i-1]) {
		i--
	}
	if strings.HasSuffix(l.src[:i], open) {
		pl = l.src[i:a]
	} else {
		pl = " "
	}
	j := b
	for j < len(l.src) && isWS(l.src[j]) {
		j++
	}
	if strings.HasPrefix(l.src[j:], close) {
		pr = l.src[b:j]
	} else {
		pr = " "
	}
	return
}

// wsBefore returns the whitespace that ends at byte offset i.
func (l lifter) wsBefore(i int) string {
	if i < 0 || i > len(l.src) {
		return " "
	}
	j := i
	for j > 0 && isWS(l.src[j-1]) {
		j--
	}
	if j == i {
		return " "
	}
	return l.src[j:i]
}

func trailing(t parser.TrailingSpace) string { return string(t) }

// nodes converts a child list. Whitespace nodes become the Lead of the
// container (when first) or the After of the preceding node.
func (l lifter) nodes(ns []parser.Node, lead string) (string, []*Node) {
	var out []*Node
	for _, n := range ns {
		if ws, isWs := n.(parser.Whitespace); isWs {
			if len(out) == 0 {
				lead += ws.Value
			} else {
				out[len(out)-1].After += ws.Value
			}
			continue
		}
		if m := l.node(n); m != nil {
			out = append(out, m)
		}
	}
	return lead, out
}

func (l lifter) node(n parser.Node) *Node {
	switch n := n.(type) {
	case parser.Text:
		return &Node{K: KText, S: n.Value, After: trailing(n.TrailingSpace)}
	case parser.StringExpression:
		m := &Node{K: KExpr, S: n.Expression.Value, After: trailing(n.TrailingSpace)}
		m.PadL, m.PadR = l.pads(n.Expression, "{", "}")
		return m
	case parser.Element:
		m := &Node{K: KElem, N: n.Name, Attrs: l.attrs(n.Attributes), After: trailing(n.TrailingSpace)}
		if n.IsVoidElement() {
			m.Void, m.Self = true, true
		}
		if len(n.Attributes) == 0 {
			// spelling of the tag end is recoverable from the source
			i := int(n.NameRange.To.Index)
			j := i
			for j < len(l.src) && isWS(l.src[j]) {
				j++
			}
			if i <= len(l.src) && j < len(l.src) {
				switch {
				case strings.HasPrefix(l.src[j:], "/>"):
					m.TagEnd, m.Void, m.Self = l.src[i:j], true, true
				case l.src[j] == '>':
					m.TagEnd = l.src[i:j]
					if m.Void {
						m.Self = false
					}
				}
			}
		}
		if k := len(m.Attrs); k > 0 && m.Attrs[k-1].K == AConst && m.Attrs[k-1].Q == "" {
			m.TagEnd = " " // the parser lets an unquoted value swallow the character after it
		}
		if !m.Void {
			m.Lead, m.Kids = l.nodes(n.Children, "")
		}
		return m
	case parser.RawElement:
		return &Node{K: KRaw, N: n.Name, Attrs: l.attrs(n.Attributes), S: n.Contents}
	case parser.ScriptElement:
		var sb strings.Builder
		for _, c := range n.Contents {
			if c.Value != nil {
				sb.WriteString(*c.Value)
			} else if c.GoCode != nil {
				pl, pr := l.pads(c.GoCode.Expression, "{{", "}}")
				sb.WriteString("{{" + pl + c.GoCode.Expression.Value + pr + "}}" + string(c.GoCode.TrailingSpace))
			}
		}
		return &Node{K: KRaw, N: "script", Attrs: l.attrs(n.Attributes), S: sb.String()}
	case parser.HTMLComment:
		return &Node{K: KHTMLComment, S: n.Contents}
	case parser.GoComment:
		if n.Multiline {
			return &Node{K: KGoComment, S: n.Contents}
		}
		return &Node{K: KGoLine, S: n.Contents, After: "\n"}
	case parser.CallTemplateExpression:
		m := &Node{K: KLegacyCall, S: n.Expression.Value}
		m.PadL, m.PadR = l.pads(n.Expression, "{!", "}")
		return m
	case parser.TemplElementExpression:
		m := &Node{K: KCall, S: n.Expression.Value}
		if len(n.Children) > 0 {
			m.Block, m.BlockPad = true, " "
			m.Lead, m.Kids = l.nodes(n.Children, "")
		}
		return m
	case parser.ChildrenExpression:
		return &Node{K: KChildren, PadL: " ", PadR: " "}
	case parser.IfExpression:
		m := &Node{K: KIf, S: strings.TrimSpace(n.Expression.Value)}
		m.Lead, m.Kids = l.nodes(n.Then, "\n")
		for _, ei := range n.ElseIfs {
			a := &Arm{Head: "else if " + strings.TrimSpace(ei.Expression.Value)}
			a.Lead, a.Kids = l.nodes(ei.Then, "\n")
			m.Arms = append(m.Arms, a)
		}
		if len(n.Else) > 0 {
			a := &Arm{Head: "else"}
			a.Lead, a.Kids = l.nodes(n.Else, "\n")
			m.Arms = append(m.Arms, a)
		}
		return m
	case parser.ForExpression:
		m := &Node{K: KFor, S: strings.TrimSpace(n.Expression.Value)}
		m.Lead, m.Kids = l.nodes(n.Children, "\n")
		return m
	case parser.SwitchExpression:
		m := &Node{K: KSwitch, S: strings.TrimSpace(n.Expression.Value), Lead: "\n"}
		for _, c := range n.Cases {
			a := &Arm{Head: c.Expression.Value}
			a.Lead, a.Kids = l.nodes(c.Children, "\n")
			m.Arms = append(m.Arms, a)
		}
		return m
	case parser.GoCode:
		m := &Node{K: KGoCode, S: n.Expression.Value, After: trailing(n.TrailingSpace)}
		m.PadL, m.PadR = l.pads(n.Expression, "{{", "}}")
		return m
	case parser.DocType:
		return &Node{K: KDoctype, S: n.Value}
	}
	return nil
}

func (l lifter) attrs(as []parser.Attribute) []*Attr {
	var out []*Attr
	for _, a := range as {
		switch a := a.(type) {
		case parser.BoolConstantAttribute:
			out = append(out, &Attr{K: ABool, Name: a.Name, Before: l.wsBefore(int(a.NameRange.From.Index))})
		case parser.ConstantAttribute:
			m := &Attr{K: AConst, Name: a.Name, Before: l.wsBefore(int(a.NameRange.From.Index))}
			raw := l.rawConst(int(a.NameRange.To.Index))
			switch {
			case len(raw) >= 3 && (raw[1] == '"' || raw[1] == '\''):
				m.Q, m.Val = raw[1:2], raw[2:len(raw)-1]
			case raw != "":
				m.Val = raw[1:]
			default:
				m.Q, m.Val = `"`, a.Value
				if a.SingleQuote {
					m.Q = `'`
				}
			}
			out = append(out, m)
		case parser.BoolExpressionAttribute:
			m := &Attr{K: ABoolExpr, Name: a.Name, S: a.Expression.Value, Before: l.wsBefore(int(a.NameRange.From.Index))}
			m.PadL, m.PadR = l.pads(a.Expression, "{", "}")
			out = append(out, m)
		case parser.ExpressionAttribute:
			m := &Attr{K: AExpr, Name: a.Name, S: a.Expression.Value, Before: l.wsBefore(int(a.NameRange.From.Index))}
			m.PadL, m.PadR = l.pads(a.Expression, "{", "}")
			out = append(out, m)
		case parser.SpreadAttributes:
			m := &Attr{K: ASpread, S: a.Expression.Value, Before: " ", PadL: " ", PadR: " "}
			e := a.Expression
			if int(e.Range.To.Index)+3 <= len(l.src) && l.cut(e.Range) == e.Value {
				e2 := e
				e2.Range.To.Index += 3
				e2.Value = e.Value + "..."
				m.PadL, m.PadR = l.pads(e2, "{", "}")
				m.Before = l.wsBefore(int(e.Range.From.Index) - len(m.PadL) - 1)
			}
			out = append(out, m)
		case parser.ConditionalAttribute:
			m := &Attr{K: ACond, S: strings.TrimSpace(a.Expression.Value), Before: " "}
			if i := int(a.Expression.Range.From.Index); i >= 2 && i <= len(l.src) {
				// the expression starts after "if"
				k := strings.LastIndex(l.src[:i], "if")
				if k >= 0 && strings.TrimSpace(l.src[k+2:i]) == "" {
					m.Before = l.wsBefore(k)
				}
			}
			m.Then = l.attrs(a.Then)
			m.Else = l.attrs(a.Else)
			m.HasElse = len(a.Else) > 0
			end := func(as []*Attr) string {
				if len(as) > 0 && strings.Contains(as[0].Before, "\n") {
					return "\n"
				}
				return " "
			}
			m.ThenEnd, m.ElseEnd = end(m.Then), end(m.Else)
			out = append(out, m)
		}
	}
	return out
}

// rawConst reads `="v"`, `='v'` or `=v` starting at byte offset i.
func (l lifter) rawConst(i int) string {
	s := l.src
	if i < 0 || i >= len(s) || s[i] != '=' {
		return ""
	}
	j := i + 1
	if j < len(s) && (s[j] == '"' || s[j] == '\'') {
		k := strings.IndexByte(s[j+1:], s[j])
		if k < 0 {
			return ""
		}
		return s[i : j+1+k+1]
	}
	k := j
	for k < len(s) && !strings.ContainsRune(" \t\n\r\"'`=<>/", rune(s[k])) {
		k++
	}
	return s[i:k]
}
