package tsrc

// cells.go: the finite, completely enumerated part of the program space.
//
//   - the ADJACENCY MATRIX: every pair (a, b) of node kinds from a 22-kind
//     alphabet, separated by {nothing, space, newline}, inside each of 7 parent
//     contexts, plus every single kind with every (lead, trail) whitespace;
//   - ATTRIBUTE / EXPRESSION CELLS: one element with one attribute of every
//     kind in several spellings, string expressions, calls, raw Go, control
//     flow heads, doctype, comments, css/script templates, file headers.
//
// Every cell is a full, self-contained .templ file in canonical spelling. The
// body text of the test template `t` identifies the cell: CellName maps a
// (reduced) body text back to the cell name, which is what canonical witnesses
// of C08/C09 are keyed by.

import (
	"sort"
	"strings"
	"sync"
)

// TestSig is the signature of the template under test in generated files; the
// identifiers used in bodies are its parameters or live in HelpersGo.
const TestSig = "t(s string, b bool, vs []string)"

// HelpersGo is a Go file with the components the matrix cells call (the
// compile-and-render sample of the thorough tier writes it next to them).
const HelpersGo = `package main

import (
	"context"
	"io"

	"github.com/a-h/templ"
)

func c() templ.Component { return templ.Raw("<b>c</b>") }

func w() templ.Component {
	return templ.ComponentFunc(func(ctx context.Context, wr io.Writer) error {
		if _, err := io.WriteString(wr, "<u>"); err != nil {
			return err
		}
		if err := templ.GetChildren(ctx).Render(templ.ClearChildren(ctx), wr); err != nil {
			return err
		}
		_, err := io.WriteString(wr, "</u>")
		return err
	})
}
`

// LeafKinds is the node-kind alphabet of the matrix, in canonical spelling.
var LeafKinds = []struct {
	Name string
	Text string
}{
	{"text", "aa"},
	{"dash", "-"},
	{"expr", "{ s }"},
	{"span", "<span>x</span>"},
	{"div", "<div>x</div>"},
	{"br", "<br/>"},
	{"input", "<input/>"},
	{"emptyspan", "<span></span>"},
	{"spanml", "<span>aa\n</span>"},
	{"divml", "<div>aa\n</div>"},
	{"htmlcomment", "<!-- c -->"},
	{"gocomment", "/* c */"},
	{"goline", "// c\n"},
	{"call", "@c()"},
	{"callblock", "@w() {\n<i>x</i>\n}"},
	{"legacycall", "{! c() }"},
	{"children", "{ children... }"},
	{"if", "if b {\n<i>x</i>\n}"},
	{"iftext", "if b {\naa}"},
	{"ifelse", "if b {\n<i>x</i>\n} else {\n<i>y</i>\n}"},
	{"for", "for _, v := range vs {\n<i>{ v }</i>\n}"},
	{"switch", "switch s {\ncase \"a\":\n<i>x</i>\n}"},
	{"gocode", "{{ v := 1 }}"},
	{"style", "<style>p{}</style>"},
	{"script", "<script>var x;</script>"},
	{"doctype", "<!DOCTYPE html>"},
}

// Contexts are the parent contexts of the matrix: Open + lead + nodes + trail
// + Close. In brace contexts Open ends with the newline the grammar requires.
var Contexts = []struct {
	Name, Open, Close string
	Trail             string // whitespace before Close in the enumerated (pretty) spelling of pairs
}{
	{"div", "<div>", "</div>", ""},
	{"span", "<span>", "</span>", ""},
	{"if", "if b {\n", "}", "\n"},
	{"for", "for _, v := range vs {\n", "}", "\n"},
	{"case", "switch s {\ncase \"a\":\n", "}", "\n"},
	{"call", "@w() {", "}", "\n"},
	{"top", "", "", "\n"},
}

var sepNames = map[string]string{"": "none", " ": "space", "\n": "newline"}
var Seps = []string{"", " ", "\n"}

// Cell is one enumerated program.
type Cell struct {
	Name string // e.g. "ctx=if a=htmlcomment sep=none b=text trail=newline" or "cell=attr-const-dq-amp-lt"
	Body string // body text of templ t
	Src  string // full file
	// NoBase: not used as a mutation base (cells added after the mutant
	// stream's witnesses were listed).
	NoBase bool
}

// FileOf wraps a body into a self-contained file.
func FileOf(body string) string {
	return "package main\n\ntempl " + TestSig + " {\n" + body + "}\n"
}

// BareFileOf wraps a body into the minimal file the reducer converges to.
func BareFileOf(body string) string {
	return "package main\n\ntempl t() {\n" + body + "}\n"
}

// MatrixName parses a canonical body text as a matrix cell
// (ctx, lead, a, [sep, b], trail) and names it; "" if it is not one. Whitespace
// defaults to none and is named only when present.
func MatrixName(body string) string {
	isSep := func(s string) bool { return s == "" || s == " " || s == "\n" }
	for _, cx := range Contexts {
		if !strings.HasPrefix(body, cx.Open) || !strings.HasSuffix(body, cx.Close) || len(body) < len(cx.Open)+len(cx.Close) {
			continue
		}
		inner := body[len(cx.Open) : len(body)-len(cx.Close)]
		for _, lead := range Seps {
			if !strings.HasPrefix(inner, lead) {
				continue
			}
			rest := inner[len(lead):]
			for _, a := range LeafKinds {
				if !strings.HasPrefix(rest, a.Text) {
					continue
				}
				r2 := rest[len(a.Text):]
				name := "ctx=" + cx.Name
				if lead != "" {
					name += " lead=" + sepNames[lead]
				}
				name += " a=" + a.Name
				if isSep(r2) {
					if r2 != "" {
						name += " trail=" + sepNames[r2]
					}
					return name
				}
				for _, sep := range Seps {
					if !strings.HasPrefix(r2, sep) {
						continue
					}
					for _, b := range LeafKinds {
						if !strings.HasPrefix(r2[len(sep):], b.Text) {
							continue
						}
						r3 := r2[len(sep)+len(b.Text):]
						if !isSep(r3) {
							continue
						}
						name += " sep=" + sepNames[sep] + " b=" + b.Name
						if r3 != "" {
							name += " trail=" + sepNames[r3]
						}
						return name
					}
				}
			}
		}
	}
	return ""
}

// MatrixBody is the inverse of MatrixName.
func MatrixBody(name string) (string, bool) {
	f := map[string]string{}
	for _, kv := range strings.Fields(name) {
		k, v, ok := strings.Cut(kv, "=")
		if !ok {
			return "", false
		}
		f[k] = v
	}
	sep := func(n string) (string, bool) {
		for s, sn := range sepNames {
			if sn == n || (n == "" && sn == "none") {
				return s, true
			}
		}
		return "", false
	}
	kind := func(n string) (string, bool) {
		for _, k := range LeafKinds {
			if k.Name == n {
				return k.Text, true
			}
		}
		return "", false
	}
	for _, cx := range Contexts {
		if cx.Name != f["ctx"] {
			continue
		}
		lead, ok1 := sep(f["lead"])
		a, ok2 := kind(f["a"])
		trail, ok3 := sep(f["trail"])
		if !ok1 || !ok2 || !ok3 {
			return "", false
		}
		body := cx.Open + lead + a
		if bn, has := f["b"]; has {
			b, ok4 := kind(bn)
			sp, ok5 := sep(f["sep"])
			if !ok4 || !ok5 {
				return "", false
			}
			body += sp + b
		}
		body += trail + cx.Close
		if MatrixName(body) != name {
			return "", false
		}
		return body, true
	}
	return "", false
}

// Matrix enumerates the adjacency matrix: every kind alone in every context
// with every lead/trail whitespace, and every pair of kinds with every
// separator in every context (trail as people write it: newline before a
// closing brace, nothing before a closing tag). Texts that occur twice keep
// the first name.
func Matrix() []Cell {
	var cells []Cell
	seen := map[string]bool{}
	add := func(body string) {
		if seen[body] {
			return
		}
		seen[body] = true
		name := MatrixName(body)
		if name == "" {
			panic("tsrc: matrix body has no name: " + body)
		}
		cells = append(cells, Cell{Name: name, Body: body, Src: FileOf(body)})
	}
	for _, cx := range Contexts {
		for _, a := range LeafKinds {
			for _, lead := range Seps {
				for _, trail := range Seps {
					add(cx.Open + lead + a.Text + trail + cx.Close)
				}
			}
		}
		for _, a := range LeafKinds {
			for _, sep := range Seps {
				for _, b := range LeafKinds {
					add(cx.Open + a.Text + sep + b.Text + cx.Trail + cx.Close)
				}
			}
		}
	}
	return cells
}

// attribute values: every named character reference that matters, numeric
// references, raw specials, in both quote kinds and unquoted.
var constValues = []struct{ name, v string }{
	{"plain", "v"}, {"empty", ""}, {"space", "a b"},
	{"amp", "&amp;"}, {"lt", "&lt;"}, {"gt", "&gt;"}, {"quot", "&quot;"}, {"apos", "&#39;"}, {"aposnamed", "&apos;"},
	{"hex", "&#x27;"}, {"dec34", "&#34;"}, {"nbsp", "&nbsp;"}, {"copy", "&copy;"},
	{"amp-lt", "&amp;lt;"}, {"amp-amp", "&amp;amp;"}, {"amp-quot", "&amp;quot;"}, {"amp-hash", "&amp;#39;"},
	{"rawamp", "a&b"}, {"rawamp-end", "a&"}, {"nosemi", "&amp"}, {"unknownref", "&zz;"},
	{"rawlt", "a<b"}, {"rawgt", "a>b"}, {"backslash", `a\nb`}, {"braces", "{x}"}, {"newline", "a\nb"}, {"tab", "a\tb"},
	{"utf8", "é✓"}, {"url", "/p?a=1&amp;b=2"}, {"js", "f(&#39;x&#39;)"},
}

// CellList enumerates the attribute / expression / spelling cells.
func CellList() []Cell {
	var cells []Cell
	seen := map[string]bool{}
	add := func(name, body string) {
		if !strings.HasSuffix(body, "\n") {
			body += "\n"
		}
		if seen[body] {
			return
		}
		seen[body] = true
		cells = append(cells, Cell{Name: "cell=" + name, Body: body, Src: FileOf(body)})
	}
	// --- constant attributes
	for _, cv := range constValues {
		add("attr-const-dq-"+cv.name, `<div title="`+cv.v+`">x</div>`)
		add("attr-const-sq-"+cv.name, `<div title='`+cv.v+`'>x</div>`)
		if cv.v != "" && !strings.ContainsAny(cv.v, " \t\n<>") {
			add("attr-const-unq-"+cv.name, `<div title=`+cv.v+` >x</div>`)
		}
	}
	add("attr-const-dq-has-sq", `<div title="it's">x</div>`)
	add("attr-const-sq-has-dq", `<div title='say "hi"'>x</div>`)
	add("attr-const-sq-has-dq-ref", `<div title='say &quot;hi&quot;'>x</div>`)
	add("attr-const-dq-has-sq-ref-and-dqref", `<div title="&#39;&quot;">x</div>`)
	add("attr-const-sq-both", `<div title='&#39;"'>x</div>`)
	add("attr-const-json", `<div hx-vals='{"a":"b"}'>x</div>`)
	add("attr-const-void", `<input value="&amp;lt;"/>`)
	add("attr-const-script", `<script src="a?b=1&amp;c=2"></script>`)
	add("attr-const-style-el", `<style media="a&amp;b">p{}</style>`)
	add("attr-const-names", `<div data-a="1" x:y="2" @click="3" :bind="4" hx-on::click="5" a.b="6" _="7">x</div>`)
	// --- boolean / bool expression
	add("attr-bool", `<input disabled/>`)
	add("attr-bool-nonvoid", `<div hidden>x</div>`)
	add("attr-bool-two", `<input disabled readonly/>`)
	for _, p := range []struct{ n, l, r string }{{"pad1", " ", " "}, {"pad0", "", ""}, {"pad2", "  ", "  "}, {"padr", "", " "}, {"padl", " ", ""}} {
		add("attr-boolexpr-"+p.n, `<input disabled?={`+p.l+`b`+p.r+`}/>`)
		add("attr-expr-"+p.n, `<div title={`+p.l+`s`+p.r+`}>x</div>`)
		add("attr-spread-"+p.n, `<div {`+p.l+`at...`+p.r+`}>x</div>`)
		add("expr-"+p.n, `<div>{`+p.l+`s`+p.r+`}</div>`)
		add("legacycall-"+p.n, `<div>{!`+p.l+`c()`+p.r+`}</div>`)
		add("gocode-"+p.n, `{{`+p.l+`v := 1`+p.r+`}}`)
		add("children-"+p.n, `<div>{`+p.l+`children...`+p.r+`}</div>`)
	}
	add("attr-boolexpr-comment", `<input disabled?={ b /* c */ }/>`)
	add("attr-boolexpr-unformatted", `<input disabled?={ b&&!b }/>`)
	// --- expression attributes
	add("attr-expr-comment", `<div title={ s /* c */ }>x</div>`)
	add("attr-expr-linecomment", "<div title={ s // c\n}>x</div>")
	add("attr-expr-unformatted", `<div title={ f( s )+"x" }>x</div>`)
	add("attr-expr-multi", "<div class={\n\"a\",\n\"b\",\n}>x</div>")
	add("attr-expr-multi-noindent", "<div class={ \"a\",\n\"b\" }>x</div>")
	add("attr-expr-multi-call", "<div title={ f(\ns,\n) }>x</div>")
	add("attr-expr-multi-first-inline", "<div title={ \"a\",\n\"b\",\n}>x</div>")
	add("attr-expr-multi-lead-newline", "<div title={\n\"a\" }>x</div>")
	add("attr-expr-multi-comment", "<div class={\n\"a\", // c\n\"b\",\n}>x</div>")
	add("attr-expr-multi-trailing-comma-inline", "<div title={ \"a\",\n\"b\", }>x</div>")
	add("attr-expr-leadcomment", `<div title={ /* c */ s }>x</div>`)
	add("attr-expr-linecomment-tail", "<div title={ \"a\", // c\n}>x</div>")
	add("attr-expr-action-linecomment", "<form action={ templ.URL(s) // c\n}>x</form>")
	add("attr-expr-href-linecomment", "<a href={ templ.URL(s) // c\n}>x</a>")
	add("attr-expr-ident-linecomment-tail", "<div title={ s, // c\n}>x</div>")
	add("attr-expr-two", `<div class={ "a", templ.KV("b", b) }>x</div>`)
	add("attr-expr-error", `<div title={ g(s) }>x</div>`)
	add("attr-expr-rawstring", "<div title={ `a\"b` }>x</div>")
	add("attr-expr-bracestring", `<div title={ "}{" }>x</div>`)
	add("attr-expr-map", `<div class={ map[string]bool{"a": b} }>x</div>`)
	add("attr-expr-class-css", `<div class={ cl() }>x</div>`)
	add("attr-expr-style", `<div style={ "color:red" }>x</div>`)
	add("attr-expr-href", `<a href={ templ.URL(s) }>x</a>`)
	add("attr-expr-action", `<form action={ templ.URL(s) }>x</form>`)
	add("attr-expr-onclick", `<button onclick={ js(s) }>x</button>`)
	add("attr-expr-hxon", `<button hx-on::click={ js(s) }>x</button>`)
	add("attr-expr-void", `<input value={ s }/>`)
	add("attr-expr-script", `<script src={ s }></script>`)
	add("attr-spread-call", `<div { f2(s)... }>x</div>`)
	add("attr-spread-comment", `<div { at /* c */... }>x</div>`)
	// --- conditional attributes
	add("attr-cond-single", `<div if b { class="a" }>x</div>`)
	add("attr-cond-single-tight", `<div if b {class="a"}>x</div>`)
	add("attr-cond-single-else", `<div if b { class="a" } else { class="c" }>x</div>`)
	add("attr-cond-multi", "<div\nif b {\nclass=\"a\"\n}\n>x</div>")
	add("attr-cond-multi-else", "<div\nif b {\nclass=\"a\"\n} else {\nclass=\"c\"\n}\n>x</div>")
	add("attr-cond-multi-sameline-open", "<div if b {\nclass=\"a\"\n}>x</div>")
	add("attr-cond-two", `<div if b { class="a" id="i" }>x</div>`)
	add("attr-cond-expr", `<div if b { title={ s } }>x</div>`)
	add("attr-cond-bool", `<input if b { disabled }/>`)
	add("attr-cond-boolexpr", `<input if b { disabled?={ b } }/>`)
	add("attr-cond-spread", `<div if b { { at... } }>x</div>`)
	add("attr-cond-nested", `<div if b { if !b { class="a" } }>x</div>`)
	add("attr-cond-nested-multi", "<div\nif b {\nif !b {\nclass=\"a\"\n}\n}\n>x</div>")
	add("attr-cond-after-const", `<div id="i" if b { class="a" }>x</div>`)
	add("attr-cond-before-const", `<div if b { class="a" } id="i">x</div>`)
	add("attr-cond-complex", `<div if s == "a" && !b { class="a" }>x</div>`)
	add("attr-cond-void", `<input if b { value="&amp;" }/>`)
	add("attr-cond-escape", `<div if b { title="&amp;lt;" }>x</div>`)
	// --- attribute layout
	add("attrs-two", `<div id="i" class="a">x</div>`)
	add("attrs-newline", "<div\nid=\"i\"\nclass=\"a\"\n>x</div>")
	add("attrs-newline-noclose", "<div id=\"i\"\nclass=\"a\">x</div>")
	add("attrs-newline-void", "<input\nid=\"i\"\n/>")
	add("attrs-newline-expr", "<div\ntitle={ s }\n{ at... }\n>x</div>")
	add("attrs-space-before-gt", `<div id="i" >x</div>`)
	add("attrs-space-before-selfclose", `<input id="i" />`)
	add("attrs-tab", "<div\tid=\"i\">x</div>")
	add("attrs-multispace", `<div  id="i"   class="a">x</div>`)
	add("attrs-newline-children", "<div\nid=\"i\"\n>\n<span>x</span>\n</div>")
	// --- void / self-closing spellings
	add("void-open", `<br>`)
	add("void-open-inline", `<div>a<br>b</div>`)
	add("void-closer", `<br></br>`)
	add("void-input-open", `<input type="text">`)
	add("selfclose-nonvoid", `<div/>`)
	add("selfclose-nonvoid-inline", `<p><span/>a</p>`)
	add("hr", `<hr/>`)
	add("hr-inline", `<div>a<hr/>b</div>`)
	add("img", `<img src="a.png"/>`)
	add("img-inline", `<p>a<img src="a.png"/>b</p>`)
	// --- string expressions
	add("expr-comment", `<div>{ s /* c */ }</div>`)
	add("expr-comment-top", `{ s /* c */ }`)
	add("expr-linecomment", "<div>{ s // c\n}</div>")
	add("expr-linecomment-top", "{ s // c\n}")
	add("expr-leadcomment", `<div>{ /* c */ s }</div>`)
	add("expr-multi", "<div>{ f(\ns,\n) }</div>")
	add("expr-multi-top", "{ f(\ns,\n) }")
	add("expr-multi-padnl", "<div>{\ns\n}</div>")
	add("expr-multi-padnl-top", "{\ns\n}")
	add("expr-error", `<div>{ g(s) }</div>`)
	add("expr-unformatted", `<div>{ f( s )+"x" }</div>`)
	add("expr-sprintf", `<div>{ fmt.Sprintf("%d-%s", 1, s) }</div>`)
	add("expr-rawstring", "<div>{ `a}b` }</div>")
	add("expr-bracestring", `<div>{ "}{" }</div>`)
	add("expr-runes", `<div>{ string('}') }</div>`)
	add("expr-func", `<div>{ func() string { return s }() }</div>`)
	add("expr-two-tight", `<div>{ s }{ s }</div>`)
	add("expr-two-space", `<div>{ s } { s }</div>`)
	add("expr-text-tight", `<div>a{ s }b</div>`)
	add("expr-text-space", `<div>a { s } b</div>`)
	add("expr-whitespace-literal", `<div>{ " " }</div>`)
	add("expr-variadic", `<div>{ vs... }</div>`)
	add("expr-variadic-top", `{ vs... }`)
	add("expr-trailing-tab", "<div>{ s\t}</div>")
	// --- calls
	add("call-args", `@c2(s, b)`)
	add("call-unformatted", `@c2( s,b )`)
	add("call-multi", "@c2(\ns,\nb,\n)")
	add("call-multi-in-div", "<div>\n@c2(\ns,\nb,\n)\n</div>")
	add("call-method", `@st.c()`)
	add("call-chain", "@st.\nc()")
	add("call-pkg", `@templ.Raw(s)`)
	add("call-struct", `@comp{A: s}`)
	add("call-struct-multi", "@comp{\nA: s,\n}")
	add("call-var", `@v`)
	add("call-block-tight", "@w(){\n<i>x</i>\n}")
	add("call-block-inline", `@w() { <i>x</i> }`)
	add("call-block-inline-text", `@w() { aa }`)
	add("call-block-nested", "@w() {\n@w() {\n<i>x</i>\n}\n}")
	add("call-block-empty", "@w() {\n}")
	add("call-block-args-multi", "@w2(\ns,\n) {\n<i>x</i>\n}")
	add("call-comment-after", `@c() // c`)
	add("call-in-span", `<span>@c()</span>`)
	add("call-join", `@templ.Join(c(), c())`)
	add("legacycall-args", `{! c2(s, b) }`)
	add("legacycall-in-if", "if b {\n{! c() }\n}")
	add("legacycall-leadcomment-newline", "{! \n/* c */c() }")
	add("legacycall-leadcomment", "{! /* c */ c() }")
	add("legacycall-multi", "{! c2(\ns,\nb) }")
	// --- raw go
	add("gocode-unformatted", `{{ v:=1 }}`)
	add("gocode-multi", "{{\nv := 1\nu := 2\n}}")
	add("gocode-multi-tight", "{{ v := 1\nu := 2 }}")
	add("gocode-comment", `{{ v := 1 /* c */ }}`)
	add("gocode-linecomment", "{{ v := 1 // c\n}}")
	add("gocode-two-statements", `{{ v := 1; u := 2 }}`)
	add("gocode-empty", `{{ }}`)
	add("gocode-in-div", `<div>{{ v := 1 }}{ s }</div>`)
	add("gocode-in-div-space", `<div>{{ v := 1 }} { s }</div>`)
	add("gocode-func", "{{ fn := func() string {\nreturn s\n} }}")
	add("gocode-in-script", `<script>var x = {{ s }};</script>`)
	add("gocode-in-script-tight", `<script>var x = {{s}};</script>`)
	add("gocode-in-script-string", `<script>var x = "{{ s }}";</script>`)
	add("gocode-in-script-multi", "<script>\nvar x = {{ s }};\nvar y = {{ b }}\n</script>")
	// --- control flow heads
	add("if-tight", "if b{\n<i>x</i>\n}")
	add("if-spaces", "if  b  {\n<i>x</i>\n}")
	add("if-init", "if v := s; v != \"\" {\n<i>x</i>\n}")
	add("if-paren", "if (b) {\n<i>x</i>\n}")
	add("if-unformatted", "if b&&!b {\n<i>x</i>\n}")
	add("if-multi-cond", "if b &&\n!b {\n<i>x</i>\n}")
	add("if-comment-head", "if b { // c\n<i>x</i>\n}")
	add("if-elseif", "if b {\n<i>x</i>\n} else if !b {\n<i>y</i>\n}")
	add("if-elseif-else", "if b {\n<i>x</i>\n} else if !b {\n<i>y</i>\n} else {\n<i>z</i>\n}")
	add("if-else-tight", "if b {\n<i>x</i>\n}else{\n<i>y</i>\n}")
	add("if-else-newline", "if b {\n<i>x</i>\n}\nelse {\n<i>y</i>\n}")
	add("if-else-inline-body", "if b {\n<i>x</i>\n} else { <i>y</i> }")
	add("if-else-text", "if b {\naa\n} else {\nbb\n}")
	add("if-empty", "if b {\n}")
	add("if-nested", "if b {\nif !b {\n<i>x</i>\n}\n}")
	add("if-close-tight", "if b {\n<i>x</i>}")
	add("if-text-close-tight", "if b {\naa}")
	add("if-indented", "\tif b {\n\t\t<i>x</i>\n\t}")
	add("if-blank-lines", "if b {\n\n<i>x</i>\n\n}")
	add("for-range", "for _, v := range vs {\n<i>{ v }</i>\n}")
	add("for-range-index", "for i := range vs {\n<i>{ vs[i] }</i>\n}")
	add("for-range-int", "for i := range 3 {\n<i>{ fmt.Sprint(i) }</i>\n}")
	add("for-3clause", "for i := 0; i < 2; i++ {\n<i>x</i>\n}")
	add("for-unformatted", "for i:=0;i<2;i++ {\n<i>x</i>\n}")
	add("for-cond", "for b {\n<i>x</i>\n}")
	add("for-tight", "for _, v := range vs{\n<i>{ v }</i>\n}")
	add("for-text", "for _, v := range vs {\naa\n}")
	add("for-leading-space", "<div> for _, v := range vs {\n<i>{ v }</i>\n}</div>")
	add("switch-tag", "switch s {\ncase \"a\":\n<i>x</i>\ncase \"b\", \"c\":\n<i>y</i>\n}")
	add("switch-default", "switch s {\ncase \"a\":\n<i>x</i>\ndefault:\n<i>y</i>\n}")
	add("switch-tagless", "switch {\ncase b:\n<i>x</i>\ndefault:\n<i>y</i>\n}")
	add("switch-init", "switch v := s; v {\ncase \"a\":\n<i>x</i>\n}")
	add("switch-type", "switch any(s).(type) {\ncase string:\n<i>x</i>\n}")
	add("switch-case-inline", "switch s {\ncase \"a\": <i>x</i>\n}")
	add("switch-case-text", "switch s {\ncase \"a\":\naa\ndefault:\nbb\n}")
	add("switch-case-empty", "switch s {\ncase \"a\":\ncase \"b\":\n<i>y</i>\n}")
	add("switch-indented-cases", "switch s {\n\tcase \"a\":\n\t\t<i>x</i>\n\tdefault:\n\t\t<i>y</i>\n}")
	add("switch-default-spaced", "switch s {\ndefault :\n<i>y</i>\n}")
	add("switch-case-comment", "switch s {\ncase \"a\": // c\n<i>x</i>\n}")
	add("switch-blank-lines", "switch s {\n\ncase \"a\":\n\n<i>x</i>\n\n}")
	// --- doctype / comments / text
	add("doctype-lower", `<!doctype html>`)
	add("doctype-html4", `<!DOCTYPE HTML PUBLIC "-//W3C//DTD HTML 4.01//EN" "http://www.w3.org/TR/html4/strict.dtd">`)
	add("doctype-then-html", "<!DOCTYPE html>\n<html><body>x</body></html>")
	add("doctype-then-html-tight", "<!DOCTYPE html><html><body>x</body></html>")
	add("htmlcomment-multi", "<!--\n c\n d\n-->")
	add("htmlcomment-tight", `<!--c-->`)
	add("htmlcomment-empty", `<!---->`)
	add("htmlcomment-in-text", `<div>a<!-- c -->b</div>`)
	add("htmlcomment-in-text-space", `<div>a <!-- c --> b</div>`)
	add("htmlcomment-special", `<!-- <b> & { s } -->`)
	add("gocomment-multi", "/*\n c\n d\n*/")
	add("gocomment-in-text", `<div>a/* c */b</div>`)
	add("gocomment-in-text-space", `<div>a /* c */ b</div>`)
	add("goline-after-element", "<div>x</div> // c")
	add("goline-after-text", "aa // c")
	add("goline-in-div", "<div>\n// c\n</div>")
	add("goline-in-div-after-text", "<div>aa // c\n</div>")
	add("goline-two", "// c\n// d")
	add("goline-tight", "//c")
	add("goline-empty", "//")
	add("text-entities", `<div>a &amp; b &lt; c &gt; d &quot; e &#39; f &nbsp; g</div>`)
	add("text-entity-double", `<div>&amp;lt;</div>`)
	add("text-specials", `<div>a > b " c ' d & e</div>`)
	add("text-multi", "<p>\naa bb\ncc dd\n</p>")
	add("text-multi-inline-start", "<p>aa bb\ncc dd</p>")
	add("text-multispace", `<p>aa   bb</p>`)
	add("text-tab", "<p>aa\tbb</p>")
	add("text-trailing-space-before-tag", `<p>aa <b>x</b> bb</p>`)
	add("text-leading-space", `<p> aa</p>`)
	add("text-trailing-space", `<p>aa </p>`)
	add("text-both-space", `<p> aa </p>`)
	add("text-long", `<p>`+strings.Repeat("lorem ipsum dolor sit amet ", 8)+`</p>`)
	add("text-utf8", `<p>é ✓ 漢字 😀</p>`)
	add("text-top", "aa bb")
	add("text-top-two-lines", "aa\nbb")
	add("text-at", `<p>a@b.c</p>`)
	add("text-keyword-if", `<p>if you</p>`)
	add("text-keyword-for", "<p>for you</p>")
	add("text-keyword-switch", "<p>switch it</p>")
	add("text-crlf", "<p>\r\naa\r\n</p>")
	// --- elements
	add("el-empty-div", `<div></div>`)
	add("el-empty-div-space", `<div> </div>`)
	add("el-empty-div-newline", "<div>\n</div>")
	add("el-empty-span-newline", "<span>\n</span>")
	add("el-nested-inline", `<div><span><b>x</b></span></div>`)
	add("el-nested-block", `<div><div><div>x</div></div></div>`)
	add("el-nested-block-multi", "<div>\n<div>\n<div>x</div>\n</div>\n</div>")
	add("el-inline-siblings-tight", `<p><b>a</b><i>b</i></p>`)
	add("el-inline-siblings-space", `<p><b>a</b> <i>b</i></p>`)
	add("el-inline-siblings-newline", "<p><b>a</b>\n<i>b</i></p>")
	add("el-open-newline", "<div>\nx</div>")
	add("el-close-newline", "<div>x\n</div>")
	add("el-block-in-inline", `<span><div>x</div></span>`)
	add("el-table", "<table><tr><td>a</td><td>b</td></tr></table>")
	add("el-ul", "<ul><li>a</li><li>b</li></ul>")
	add("el-pre", "<pre>  a\n   b\n</pre>")
	add("el-textarea", "<textarea>  a\n   b\n</textarea>")
	add("el-custom", `<my-el>x</my-el>`)
	add("el-svg", `<svg viewBox="0 0 1 1"><path d="M0 0"/></svg>`)
	add("el-a-in-text", `<p>see <a href="/x">this</a>, ok</p>`)
	add("el-a-in-text-tight", `<p>see<a href="/x">this</a>ok</p>`)
	add("el-title", `<head><title>x</title><meta charset="utf-8"/><link rel="x" href="y"/></head>`)
	add("el-button-newline-text", "<button>\nClick\n</button>")
	add("el-label-input", `<label>a <input type="text"/> b</label>`)
	add("el-close-tag-space-trailing", "<span>x</span> \n")
	add("style-multi", "<style>\np {\n color: red;\n}\n</style>")
	add("style-attrs", `<style type="text/css">p{}</style>`)
	add("style-in-div-inline", `<div><style>p{}</style></div>`)
	add("style-braces", `<style>p{ content: "{ s }" }</style>`)
	add("script-multi", "<script>\nvar x = 1;\nif (x < 2) { x++ }\n</script>")
	add("script-attrs", `<script type="module" defer>var x;</script>`)
	add("script-empty", `<script></script>`)
	add("script-src", `<script src="a.js"></script>`)
	add("script-strings", "<script>var a = \"</div>\"; var b = '<'; var c = `${a}`;</script>")
	add("script-comments", "<script>// c\n/* d */ var x;</script>")
	add("script-in-div-inline", `<div><script>var x;</script></div>`)
	add("script-json", `<script type="application/json">{"a": [1, 2]}</script>`)
	return cells
}

// fileCells are whole-file cells (things outside a template body): css and
// script templates, headers, Go code between templates, template signatures.
func fileCells() []Cell {
	var cells []Cell
	add := func(name, src string) {
		cells = append(cells, Cell{Name: "cell=" + name, Body: "", Src: src})
	}
	t := "templ t() {\n<div>x</div>\n}\n"
	add("file-css", "package main\n\ncss cl() {\n\tcolor: red;\n}\n\n"+t)
	add("file-css-oneline", "package main\n\ncss cl() { color: red; }\n\n"+t)
	add("file-css-tight", "package main\n\ncss cl(){color:red;background-color:blue;}\n\n"+t)
	add("file-css-expr", "package main\n\ncss cl(v string) {\n\tcolor: { v };\n}\n\n"+t)
	add("file-css-expr-tight", "package main\n\ncss cl(v string) {\n\tcolor:{v};\n}\n\n"+t)
	add("file-css-expr-comment", "package main\n\ncss cl(v string) {\n\tcolor: { v /* c */ };\n}\n\n"+t)
	add("file-css-args-multi", "package main\n\ncss cl(\n\tv string,\n\tu string,\n) {\n\tcolor: { v };\n}\n\n"+t)
	add("file-css-important", "package main\n\ncss cl() {\n\tcolor: red !important;\n\tbackground-image: url('a.png');\n}\n\n"+t)
	add("file-css-empty", "package main\n\ncss cl() {\n}\n\n"+t)
	add("file-css-vendor", "package main\n\ncss cl() {\n\t-webkit-appearance: none;\n\t--my-var: 1px;\n}\n\n"+t)
	add("file-script", "package main\n\nscript sc(a string) {\n\talert(a);\n}\n\n"+t)
	add("file-script-oneline", "package main\n\nscript sc(a string) { alert(a); }\n\n"+t)
	add("file-script-noargs", "package main\n\nscript sc() {\n\tvar x = {a: 1};\n\tif (x.a) { x.a++ }\n}\n\n"+t)
	add("file-script-args-multi", "package main\n\nscript sc(\n\ta string,\n\tb int,\n) {\n\talert(a);\n}\n\n"+t)
	add("file-script-strings", "package main\n\nscript sc(a string) {\n\tvar s = \"}\"; var t = '{'; // }\n\t/* { */\n}\n\n"+t)
	add("file-script-args-trailing-comma", "package main\n\nscript sc(\n\ta string, ) {\n\talert(a);\n}\n\n"+t)
	add("file-script-args-unformatted", "package main\n\nscript sc(a string,b int) {\n\talert(a);\n}\n\n"+t)
	add("file-header-comment", "// hello\npackage main\n\n"+t)
	add("file-header-comment-blank", "// hello\n\npackage main\n\n"+t)
	add("file-header-block-comment", "/*\n hello\n*/\npackage main\n\n"+t)
	add("file-header-build-tag", "//go:build !x\n\npackage main\n\n"+t)
	add("file-header-blank-lines", "\n\n// hello\n\n\npackage main\n\n"+t)
	add("file-header-two-comments", "// a\n\n// b\npackage main\n\n"+t)
	add("file-imports", "package main\n\nimport \"fmt\"\nimport s2 \"strings\"\n\nvar _ = fmt.Sprint\nvar _ = s2.ToUpper\n\n"+t)
	add("file-imports-group-unformatted", "package main\n\nimport (\n\"strings\"\n\t\t\"fmt\"\n)\n\nvar _, _ = fmt.Sprint, strings.ToUpper\n\n"+t)
	add("file-go-func-unformatted", "package main\n\nfunc  h( a string )string{return a}\n\n"+t)
	add("file-go-between", "package main\n\n"+t+"\nconst k = 1\n\n// doc\ntempl u() {\n<p>y</p>\n}\n")
	add("file-go-comment-before-templ", "package main\n\n// t renders.\n"+t)
	add("file-go-comment-blank-before-templ", "package main\n\n// t renders.\n\n"+t)
	add("file-go-block-comment-before-templ", "package main\n\n/* t renders. */\n"+t)
	add("file-go-after", "package main\n\n"+t+"\nfunc h() {}\n")
	add("file-go-type", "package main\n\ntype st struct {\n\tA string\n}\n\n"+t)
	add("file-go-type-unformatted", "package main\n\ntype st struct {\nA string\nBB    int\n}\n\n"+t)
	add("file-go-invalid-kept", "package main\n\nvar x = \n\n"+t)
	add("file-templ-receiver", "package main\n\ntype st struct{}\n\ntempl (x st) t() {\n<div>x</div>\n}\n")
	add("file-templ-args-multi", "package main\n\ntempl t(\n\ta string,\n\tb int,\n) {\n<div>x</div>\n}\n")
	add("file-templ-args-unformatted", "package main\n\ntempl t(a string,b int) {\n<div>x</div>\n}\n")
	add("file-templ-generic", "package main\n\ntempl t[T any](a T) {\n<div>x</div>\n}\n")
	add("file-templ-tight-brace", "package main\n\ntempl t(){\n<div>x</div>\n}\n")
	add("file-templ-oneline", "package main\n\ntempl t() {<div>x</div>}\n")
	add("file-templ-empty", "package main\n\ntempl t() {\n}\n")
	add("file-templ-two-tight", "package main\n\ntempl t() {\n<div>x</div>\n}\ntempl u() {\n<p>y</p>\n}\n")
	add("file-templ-many-blank", "package main\n\n\n\ntempl t() {\n<div>x</div>\n}\n\n\n\ntempl u() {\n<p>y</p>\n}\n\n\n")
	add("file-no-trailing-newline", "package main\n\ntempl t() {\n<div>x</div>\n}")
	add("file-crlf", "package main\r\n\r\ntempl t() {\r\n<div>x</div>\r\n}\r\n")
	add("file-no-package", "\ntempl t() {\n<div>x</div>\n}\n")
	add("file-no-package-comment", "// c\n\ntempl t() {\n<div>x</div>\n}\n")
	add("file-sig-comment", "package main\n\ntempl t(a string /* c */) {\n<div>x</div>\n}\n")
	add("file-sig-linecomment", "package main\n\ntempl t(a string, // c\n) {\n<div>x</div>\n}\n")
	add("file-sig-comment-before-name", "package main\n\ntempl /* c */ t() {\n<div>x</div>\n}\n")
	add("file-sig-blockcomment-in-type", "package main\n\ntempl t(a [ /* c */ ]string) {\n<div>x</div>\n}\n")
	add("file-sig-blockcomment-newline-in-type", "package main\n\ntempl t(a [\n/* c */]string) {\n<div>x</div>\n}\n")
	add("file-go-comment-before-import", "package main\n\nimport \"fmt\"\n/* c */ import \"strings\"\n\nvar _, _ = fmt.Sprint, strings.ToUpper\n\n"+t)
	add("file-go-comment-before-func", "package main\n\n/* c */ func h() {}\n\n"+t)
	add("file-sig-blockcomment-then-newline-in-type", "package main\n\ntempl t(a [/* c */\n]string) {\n<div>x</div>\n}\n")
	add("file-sig-linecomment-in-type", "package main\n\ntempl t(a [ // c\n]string) {\n<div>x</div>\n}\n")
	add("file-header-build-tag-only", "//go:build p\n")
	add("file-header-build-tag-only-no-newline", "//go:build p")
	add("file-header-comment-only", "// c")
	add("file-package-comment-same-line", "package main // c\n\n"+t)
	return cells
}

// AllCells = matrix + attribute/expression cells + whole-file cells.
func AllCells() []Cell {
	cs := Matrix()
	cs = append(cs, CellList()...)
	cs = append(cs, fileCells()...)
	cs = append(cs, MultiLineCells()...)
	cs = append(cs, EscapeCells()...)
	cs = append(cs, LineCommentCells()...)
	cs = append(cs, CRCells()...)
	cs = append(cs, CRLFCells()...)
	cs = append(cs, GoCRCells()...)
	return cs
}

var (
	cellOnce  sync.Once
	cellIndex map[string]string // body text -> name (matrix, cells); full text -> name (file cells)
)

func buildIndex() {
	cellIndex = map[string]string{}
	for _, c := range append(append(AllCells(), ImportCells()...), SaveCells()...) {
		k := c.Body
		if k == "" {
			k = "FILE:" + c.Src
		}
		if !strings.HasPrefix(c.Name, "cell=") {
			continue
		}
		if _, dup := cellIndex[k]; !dup {
			cellIndex[k] = c.Name
		}
		if t := strings.TrimRight(k, "\n"); t != k {
			if _, dup := cellIndex[t]; !dup {
				cellIndex[t] = c.Name
			}
		}
	}
}

// CellName returns the name of the cell whose canonical text equals the given
// (reduced) program, or "" if it is not a cell. src is a full file.
func CellName(src string) string {
	cellOnce.Do(buildIndex)
	if n, ok := cellIndex["FILE:"+src]; ok {
		return n
	}
	if body, ok := BodyOf(src); ok {
		if n := MatrixName(body); n != "" {
			return n
		}
		return cellIndex[body]
	}
	return ""
}

// BodyOf extracts the body of the single test template from a file of the
// shape produced by FileOf / BareFileOf.
func BodyOf(src string) (string, bool) {
	for _, pre := range []string{"package main\n\ntempl t() {\n", "package main\n\ntempl " + TestSig + " {\n"} {
		if strings.HasPrefix(src, pre) {
			rest := src[len(pre):]
			for _, suf := range []string{"}\n"} {
				if strings.HasSuffix(rest, suf) {
					body := rest[:len(rest)-len(suf)]
					if !strings.Contains(body, "\ntempl ") {
						return body, true
					}
				}
			}
		}
	}
	return "", false
}

// CellNames lists all cell names (sorted) — evidence / tooling.
func CellNames() []string {
	cellOnce.Do(buildIndex)
	var ns []string
	for _, n := range cellIndex {
		ns = append(ns, n)
	}
	sort.Strings(ns)
	return ns
}
