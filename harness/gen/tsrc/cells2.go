package tsrc

// cells2.go: cells added after the first registration. They are enumerated
// like the others but are not used as mutation bases (NoBase), so that the
// mutant stream — whose witnesses are listed — stays what it was.
//
//   - MultiLineCells: Go expressions that span lines (raw strings with
//     whitespace-only lines, trailing spaces, leading tabs, blank lines;
//     interpreted strings with escapes joined over lines; composite literals)
//     in every expression slot.
//   - ImportCells: files whose import section `templ fmt <file>` rewrites.

import (
	"fmt"
	"strings"
)

// multi-line expressions of type string
var multiLineExprs = []struct{ name, e string }{
	{"raw-spaces-line", "`a\n   \nb`"},
	{"raw-tab-line", "`a\n\t\nb`"},
	{"raw-trailing-spaces", "`a  \nb\t\nc`"},
	{"raw-leading-ws", "`a\n\t b\n  c`"},
	{"raw-blank-line", "`a\n\nb`"},
	{"raw-only-ws-lines", "`\n \n\t\n`"},
	{"interp-concat", "\"a\\t\\\"\\n\" +\n\"b\\\\\" +\n\t\"c\""},
	{"composite", "[]string{\n\"a\",\n\t\"b\",\n}[0]"},
	{"map-composite", "map[string]string{\n\"k\": \"v\",\n\n\"l\": `w\n \nx`,\n}[\"k\"]"},
	{"call-multi", "f(\n\ts,\n)"},
}

// MultiLineCells puts every multi-line expression into every expression slot.
func MultiLineCells() []Cell {
	var cells []Cell
	add := func(name, body string) {
		if !strings.HasSuffix(body, "\n") {
			body += "\n"
		}
		cells = append(cells, Cell{Name: "cell=ml-" + name, Body: body, Src: FileOf(body), NoBase: true})
		// the same one level deeper (re-indentation depends on the level)
		in := "<div>\n" + body + "</div>\n"
		cells = append(cells, Cell{Name: "cell=ml-" + name + "-in-div", Body: in, Src: FileOf(in), NoBase: true})
	}
	for _, m := range multiLineExprs {
		e := m.e
		add("call-arg-"+m.name, "@c3("+e+")")
		add("call-arg2-"+m.name, "@c4(s, "+e+", b)")
		add("call-block-arg-"+m.name, "@w3("+e+") {\n<i>x</i>\n}")
		add("call-struct-"+m.name, "@comp{A: "+e+"}")
		add("call-struct-multi-"+m.name, "@comp{\nA: "+e+",\n}")
		add("legacycall-arg-"+m.name, "{! c3("+e+") }")
		add("expr-"+m.name, "{ "+e+" }")
		add("expr-inline-"+m.name, "<span>a{ "+e+" }b</span>")
		add("attr-expr-"+m.name, "<div title={ "+e+" }>x</div>")
		add("attr-expr-newline-"+m.name, "<div\ntitle={ "+e+" }\n>x</div>")
		add("attr-class-"+m.name, "<div class={ "+e+" }>x</div>")
		add("attr-class-two-"+m.name, "<div class={ \"k\", "+e+" }>x</div>")
		add("attr-style-"+m.name, "<div style={ "+e+" }>x</div>")
		add("attr-href-"+m.name, "<a href={ templ.URL("+e+") }>x</a>")
		add("attr-boolexpr-"+m.name, "<input disabled?={ s == "+e+" }/>")
		add("attr-spread-"+m.name, "<div { f3("+e+")... }>x</div>")
		add("attr-cond-condition-"+m.name, "<div\nif s == "+e+" {\nclass=\"a\"\n}\n>x</div>")
		add("attr-cond-inner-"+m.name, "<div\nif b {\ntitle={ "+e+" }\n}\n>x</div>")
		add("if-"+m.name, "if s == "+e+" {\n<i>x</i>\n}")
		add("elseif-"+m.name, "if b {\n<i>x</i>\n} else if s == "+e+" {\n<i>y</i>\n}")
		add("for-"+m.name, "for _, v := range strings.Split("+e+", \"\\n\") {\n<i>{ v }</i>\n}")
		add("switch-"+m.name, "switch "+e+" {\ncase \"a\":\n<i>x</i>\n}")
		add("case-"+m.name, "switch s {\ncase "+e+":\n<i>x</i>\n}")
		add("gocode-"+m.name, "{{ v := "+e+" }}")
		add("gocode-multi-"+m.name, "{{\nv := "+e+"\n_ = v\n}}")
		add("script-gocode-"+m.name, "<script>var x = {{ "+e+" }};</script>")
	}
	// whole-file slots
	t := "templ t() {\n<div>x</div>\n}\n"
	for _, m := range multiLineExprs {
		src := "package main\n\ncss cl() {\n\tcolor: { " + m.e + " };\n}\n\n" + t
		cells = append(cells, Cell{Name: "cell=ml-file-css-" + m.name, Src: src, NoBase: true})
		src = "package main\n\nvar x = " + m.e + "\n\n" + t
		cells = append(cells, Cell{Name: "cell=ml-file-go-" + m.name, Src: src, NoBase: true})
		src = "package main\n\ntempl t(a string) {\n<div>x</div>\n}\n\ntempl u() {\n@t(" + m.e + ")\n}\n"
		cells = append(cells, Cell{Name: "cell=ml-file-call-own-" + m.name, Src: src, NoBase: true})
	}
	return cells
}

// ---- import sections

var impPkgs = []struct{ path, use string }{
	{"fmt", "fmt.Sprint(s)"},
	{"strings", "strings.ToUpper(s)"},
	{"strconv", "strconv.Quote(s)"},
	{"os", "os.Getenv(s)"},
	{"sort", "strconv.Itoa(sort.SearchStrings(nil, s))"},
}

func impBody(used []int) string {
	var b strings.Builder
	b.WriteString("templ t(s string) {\n\t<div>{ s }</div>\n")
	for _, u := range used {
		b.WriteString("\t<p>{ " + impPkgs[u].use + " }</p>\n")
	}
	b.WriteString("}\n")
	return b.String()
}

// ImportCells enumerates import sections: none / single / groups / several
// declarations, with every subset of the imported packages used, aliased,
// dot and blank imports, missing imports, surrounding Go code and comments.
func ImportCells() []Cell {
	var cells []Cell
	add := func(name, src string) {
		cells = append(cells, Cell{Name: "cell=imp-" + name, Src: src, NoBase: true})
	}
	bits := func(n, mask int) (used []int, tag string) {
		for i := 0; i < n; i++ {
			if mask&(1<<i) != 0 {
				used = append(used, i)
				tag += "u"
			} else {
				tag += "x"
			}
		}
		return
	}
	// no import section, k packages needed
	for k := 0; k <= 3; k++ {
		used, _ := bits(k, 1<<k-1)
		add(fmt.Sprintf("none-need%d", k), "package main\n\n"+impBody(used))
	}
	// n imports, every subset used (u) / unused (x), three layouts
	for n := 1; n <= 4; n++ {
		for mask := 0; mask < 1<<n; mask++ {
			used, tag := bits(n, mask)
			var group, decls strings.Builder
			group.WriteString("import (\n")
			for i := 0; i < n; i++ {
				group.WriteString("\t\"" + impPkgs[i].path + "\"\n")
				decls.WriteString("import \"" + impPkgs[i].path + "\"\n")
			}
			group.WriteString(")\n")
			add(fmt.Sprintf("group%d-%s", n, tag), "package main\n\n"+group.String()+"\n"+impBody(used))
			add(fmt.Sprintf("decls%d-%s", n, tag), "package main\n\n"+decls.String()+"\n"+impBody(used))
			if n >= 2 {
				// first import on its own, the rest grouped
				mixed := "import \"" + impPkgs[0].path + "\"\n\nimport (\n"
				for i := 1; i < n; i++ {
					mixed += "\t\"" + impPkgs[i].path + "\"\n"
				}
				mixed += ")\n"
				add(fmt.Sprintf("mixed%d-%s", n, tag), "package main\n\n"+mixed+"\n"+impBody(used))
			}
		}
	}
	// five in a group: adjacent unused pairs, first / middle / last unused
	for _, mask := range []int{0b00000, 0b11111, 0b11100, 0b00111, 0b10011, 0b11001, 0b01110, 0b10101, 0b01010, 0b11110, 0b01111, 0b11011} {
		used, tag := bits(5, mask)
		g := "import (\n"
		d := ""
		for i := 0; i < 5; i++ {
			g += "\t\"" + impPkgs[i].path + "\"\n"
			d += "import \"" + impPkgs[i].path + "\"\n"
		}
		add("group5-"+tag, "package main\n\n"+g+")\n\n"+impBody(used))
		add("decls5-"+tag, "package main\n\n"+d+"\n"+impBody(used))
	}
	// unused imports together with missing ones
	add("unused-and-missing", "package main\n\nimport \"os\"\n\n"+impBody([]int{0, 1}))
	add("unused-group-and-missing", "package main\n\nimport (\n\t\"os\"\n\t\"sort\"\n)\n\n"+impBody([]int{1, 2}))
	add("one-used-one-missing", "package main\n\nimport \"fmt\"\n\n"+impBody([]int{0, 2}))
	add("group-used-plus-missing", "package main\n\nimport (\n\t\"fmt\"\n\t\"strings\"\n)\n\n"+impBody([]int{0, 1, 2}))
	// spellings of one import
	one := impBody([]int{0})
	add("single-paren-oneline", "package main\n\nimport (\"fmt\")\n\n"+one)
	add("single-paren", "package main\n\nimport (\n\t\"fmt\"\n)\n\n"+one)
	add("single-paren-unused", "package main\n\nimport (\n\t\"fmt\"\n)\n\n"+impBody(nil))
	add("group-semicolons", "package main\n\nimport (\"fmt\"; \"strconv\")\n\n"+one)
	add("group-unsorted", "package main\n\nimport (\n\t\"strings\"\n\t\"fmt\"\n)\n\n"+impBody([]int{0, 1}))
	add("group-blank-line-between", "package main\n\nimport (\n\t\"fmt\"\n\n\t\"strings\"\n)\n\n"+impBody([]int{0, 1}))
	add("group-duplicate", "package main\n\nimport (\n\t\"fmt\"\n\t\"fmt\"\n)\n\n"+one)
	add("empty-group", "package main\n\nimport ()\n\n"+impBody(nil))
	add("empty-group-need1", "package main\n\nimport ()\n\n"+one)
	// aliased, dot and blank imports
	alias := "templ t(s string) {\n\t<div>{ f.Sprint(s) }</div>\n}\n"
	add("alias-used", "package main\n\nimport f \"fmt\"\n\n"+alias)
	add("alias-unused", "package main\n\nimport f \"fmt\"\n\n"+impBody(nil))
	add("alias-unused-plain-needed", "package main\n\nimport f \"fmt\"\n\n"+one)
	add("alias-in-group", "package main\n\nimport (\n\tf \"fmt\"\n\t\"strings\"\n)\n\n"+alias)
	add("alias-and-plain-same-path", "package main\n\nimport (\n\tf \"fmt\"\n\t\"fmt\"\n)\n\ntempl t(s string) {\n\t<div>{ f.Sprint(s) }{ fmt.Sprint(s) }</div>\n}\n")
	add("alias-two-one-unused", "package main\n\nimport (\n\tf \"fmt\"\n\tst \"strings\"\n)\n\n"+alias)
	add("dot", "package main\n\nimport . \"fmt\"\n\ntempl t(s string) {\n\t<div>{ Sprint(s) }</div>\n}\n")
	add("dot-in-group", "package main\n\nimport (\n\t. \"fmt\"\n\t\"os\"\n)\n\ntempl t(s string) {\n\t<div>{ Sprint(s) }</div>\n}\n")
	add("blank", "package main\n\nimport _ \"embed\"\n\n"+impBody(nil))
	add("blank-in-group", "package main\n\nimport (\n\t_ \"embed\"\n\t\"fmt\"\n\t\"os\"\n)\n\n"+one)
	add("blank-and-unused-decls", "package main\n\nimport _ \"embed\"\nimport \"os\"\nimport \"sort\"\n\n"+impBody(nil))
	// the templ module and its runtime, used without an import (the generated code imports them)
	add("templ-used-no-import", "package main\n\ntempl t(s string) {\n\t<div class={ templ.KV(\"a\", true) }>{ templ.EscapeString(s) }</div>\n}\n")
	add("templ-used-with-std", "package main\n\nimport \"fmt\"\n\ntempl t(s string) {\n\t<a href={ templ.URL(fmt.Sprint(s)) }>x</a>\n}\n")
	// imports and other top-level Go code and comments
	add("comment-before", "package main\n\n// imports\nimport \"fmt\"\n\n"+one)
	add("comment-before-unused", "package main\n\n// imports\nimport \"fmt\"\n\n"+impBody(nil))
	add("comment-after-line", "package main\n\nimport \"fmt\" // for Sprint\n\n"+one)
	add("comment-after-line-unused", "package main\n\nimport (\n\t\"fmt\" // for Sprint\n\t\"os\" // unused\n)\n\n"+one)
	add("comment-inside-group", "package main\n\nimport (\n\t// std\n\t\"fmt\"\n\t// more\n\t\"strings\"\n)\n\n"+impBody([]int{0}))
	add("comment-between-decls", "package main\n\nimport \"fmt\"\n// c\nimport \"os\"\n\n"+one)
	add("block-comment-before", "package main\n\n/* c */\nimport \"fmt\"\n\n"+one)
	add("code-after-imports", "package main\n\nimport \"fmt\"\n\nvar x = 1\n\n"+one)
	add("code-after-imports-unused", "package main\n\nimport \"fmt\"\n\nvar x = 1\n\n"+impBody(nil))
	add("code-uses-import", "package main\n\nimport \"strconv\"\n\nfunc n(i int) string { return strconv.Itoa(i) }\n\n"+impBody(nil))
	add("code-uses-missing", "package main\n\nfunc n(i int) string { return strconv.Itoa(i) }\n\n"+impBody(nil))
	add("code-only-no-imports", "package main\n\nvar x = 1\n\n"+impBody(nil))
	add("code-only-need1", "package main\n\nvar x = 1\n\n"+one)
	add("doc-comment-then-templ-need1", "package main\n\n// t renders.\n"+one)
	add("const-type-func", "package main\n\nimport (\n\t\"fmt\"\n\t\"os\"\n)\n\nconst k = 1\n\ntype st struct{ A string }\n\nfunc (x st) String() string { return fmt.Sprint(x.A) }\n\n"+impBody(nil))
	add("imports-after-code", "package main\n\nvar x = 1\n\nimport \"fmt\"\n\n"+one)
	add("header-comment", "// header\n\npackage main\n\nimport (\n\t\"fmt\"\n\t\"os\"\n)\n\n"+one)
	add("build-tag", "//go:build !x\n\npackage main\n\nimport \"os\"\n\n"+one)
	add("templ-first-then-go", "package main\n\n"+one+"\nfunc n(i int) string { return strconv.Itoa(i) }\n")
	add("css-first-need1", "package main\n\ncss cl() {\n\tcolor: red;\n}\n\n"+one)
	add("script-first-unused", "package main\n\nimport \"os\"\n\nscript sc(a string) {\n\talert(a);\n}\n\n"+impBody(nil))
	add("no-blank-line-after-imports", "package main\n\nimport \"fmt\"\n"+one)
	add("many-blank-lines", "package main\n\n\n\nimport \"fmt\"\n\n\n\n"+one)
	add("crlf", strings.ReplaceAll("package main\n\nimport (\n\t\"fmt\"\n\t\"os\"\n)\n\n"+one, "\n", "\r\n"))
	add("tabs-unformatted", "package main\n\nimport(\n\"fmt\"\n    \"strings\"\n)\n\n"+impBody([]int{0, 1}))
	return cells
}

// ---- character references in constant attribute values and text

// escValues are correctly escaped source texts; what they decode to contains
// an ampersand followed by something a parser may or may not read as a
// character reference (HTML and html.UnescapeString accept the legacy named
// references without a terminating semicolon).
func escValues() []struct{ name, v string } {
	var vs []struct{ name, v string }
	add := func(name, v string) { vs = append(vs, struct{ name, v string }{name, v}) }
	for _, n := range []string{"copy", "reg", "lt", "gt", "amp", "quot", "not", "para", "sect", "times", "nbsp", "deg", "yen", "AMP", "LT"} {
		add("legacy-"+n, "q=go&amp;"+n+"=2")     // decodes to &copy=2 …: legacy reference without semicolon
		add("legacy-"+n+"-end", "a&amp;"+n)      // … at the end of the value
		add("named-"+n+"-semi", "a&amp;"+n+";b") // decodes to &copy;b: reference with semicolon
	}
	add("named-nolegacy", "a&amp;hearts=1")      // &hearts is only a reference with a semicolon
	add("named-nolegacy-semi", "a&amp;hearts;b") //
	add("named-unknown", "a&amp;zz;b")
	for _, n := range []string{"#60", "#x3c", "#X3C", "#38", "#39", "#34", "#0", "#x110000"} {
		add("numeric-"+n[1:], "a&amp;"+n+"b")
		add("numeric-"+n[1:]+"-semi", "a&amp;"+n+";b")
	}
	add("amp-text", "a&amp;b")
	add("amp-space", "a &amp; b")
	add("amp-end", "a&amp;")
	add("amp-only", "&amp;")
	add("amp-amp-nosemi", "&amp;amp")
	add("amp-amp", "&amp;amp;")
	add("double-escaped", "&amp;amp;lt;")
	add("triple", "&amp;amp;amp;")
	add("query", "a=1&amp;b=2&amp;copy=3")
	add("query-url", "/search?q=go&amp;copy=2&amp;lang=en")
	add("two-amps", "&amp;&amp;lt")
	add("quot-ref", "say &quot;hi&quot;")
	add("apos-ref", "it&#39;s")
	add("apos-named", "it&apos;s")
	add("quot-numeric", "a&#34;b")
	add("both-quote-refs", "&quot;&#39;")
	add("lt-gt-refs", "&lt;b&gt;")
	add("raw-amp-legacy", "q=go&copy=2") // not escaped in the source: already means ©
	add("nbsp-ref", "a&nbsp;b")
	return vs
}

// EscapeCells puts each escaped value into an attribute (double-quoted,
// single-quoted, unquoted where the grammar allows it, void element,
// conditional attribute), a text node, an HTML comment and the raw elements.
func EscapeCells() []Cell {
	var cells []Cell
	add := func(name, body string) {
		body += "\n"
		cells = append(cells, Cell{Name: "cell=esc-" + name, Body: body, Src: FileOf(body), NoBase: true})
	}
	for _, e := range escValues() {
		add("dq-"+e.name, `<a href="`+e.v+`">x</a>`)
		add("sq-"+e.name, `<a href='`+e.v+`'>x</a>`)
		if !strings.ContainsAny(e.v, " \t\n<>\"'`=") {
			add("unq-"+e.name, `<a href=`+e.v+` >x</a>`)
		}
		add("void-"+e.name, `<input value="`+e.v+`"/>`)
		add("cond-"+e.name, "<div\nif b {\ntitle=\""+e.v+"\"\n}\n>x</div>")
		add("two-attrs-"+e.name, `<a title="`+e.v+`" href="`+e.v+`">x</a>`)
		add("text-"+e.name, `<p>`+e.v+`</p>`)
		add("text-top-"+e.name, e.v)
		add("comment-"+e.name, `<!-- `+e.v+` -->`)
		add("style-"+e.name, `<style>p::after { content: "`+e.v+`"; }</style>`)
		add("script-"+e.name, `<script>var x = "`+e.v+`";</script>`)
	}
	return cells
}

// ---- format-on-save inputs

// SaveCells are whole files whose line count changes (or not) when formatted:
// blank lines after the package clause, between nodes and at the end, tags
// spelled over several lines that join, children that move to lines of their
// own, unused import groups, missing final newline.
func SaveCells() []Cell {
	var cells []Cell
	add := func(name, src string) {
		cells = append(cells, Cell{Name: "cell=save-" + name, Src: src, NoBase: true})
	}
	add("formatted", "package main\n\ntempl t(s string) {\n\t<div>{ s }</div>\n}\n")
	add("formatted-two", "package main\n\ntempl t(s string) {\n\t<div>{ s }</div>\n}\n\ntempl u() {\n\t<p>x</p>\n}\n")
	add("blank-after-package", "package main\n\n\n\n\ntempl t(s string) {\n\t<div>{ s }</div>\n}\n")
	add("blank-between-nodes", "package main\n\ntempl t(s string) {\n\n\t<div>{ s }</div>\n\n\t<p>x</p>\n\n}\n")
	add("blank-trailing", "package main\n\ntempl t(s string) {\n\t<div>{ s }</div>\n}\n\n\n\n")
	add("blank-everywhere", "package main\n\n\n\ntempl t(s string) {\n\n\t<div\n\t>\n\n\t\t<p>{ s }</p>\n\n\t\t<p>x</p>\n\n\t</div>\n\n}\n\n\n")
	add("blank-between-templates", "package main\n\ntempl t() {\n\t<p>x</p>\n}\n\n\n\n\ntempl u() {\n\t<p>y</p>\n}\n")
	add("no-final-newline", "package main\n\ntempl t(s string) {\n\t<div>{ s }</div>\n}")
	add("no-final-newline-shrinks", "package main\n\n\n\ntempl t(s string) {\n\n\t<div>{ s }</div>\n}")
	add("one-line-templ", "package main\n\ntempl t(s string) {<div>{ s }</div>}")
	add("tag-joins", "package main\n\ntempl t(s string) {\n\t<div\n\t>\n\t\t{ s }\n\t</div\n\t>\n}\n")
	add("tag-attrs-join-void", "package main\n\ntempl t(s string) {\n\t<input\n\t/>\n}\n")
	add("children-move", "package main\n\ntempl t(s string) {\n\t<div><p>{ s }\n\t</p></div>\n}\n")
	add("children-move-much", "package main\n\ntempl t(s string) {\n\t<ul><li>a</li><li>b</li><li>c\n</li></ul>\n}\n")
	add("if-body-blank", "package main\n\ntempl t(b bool) {\n\tif b {\n\n\t\t<p>x</p>\n\n\t}\n}\n")
	add("comment-blank", "package main\n\ntempl t() {\n\t// c\n\n\n\t<p>x</p>\n}\n")
	add("go-code-blank", "package main\n\n\nvar x = 1\n\n\n\nfunc f() {\n\n}\n\n\ntempl t() {\n\t<p>x</p>\n}\n")
	add("go-code-grows", "package main\n\nfunc f() { if true { return } }\n\ntempl t() {\n\t<p>x</p>\n}\n")
	add("unused-import-group", "package main\n\nimport (\n\t\"fmt\"\n\t\"os\"\n)\n\ntempl t() {\n\t<p>x</p>\n}\n")
	add("unused-import-group-of-one", "package main\n\nimport (\n\t\"os\"\n)\n\ntempl t() {\n\t<p>x</p>\n}\n")
	add("unused-import-decls", "package main\n\nimport \"fmt\"\nimport \"os\"\n\ntempl t(s string) {\n\t<p>{ fmt.Sprint(s) }</p>\n}\n")
	add("missing-imports-grow", "package main\n\ntempl t(s string) {\n\t<p>{ fmt.Sprint(s) }{ strings.ToUpper(s) }</p>\n}\n")
	add("import-group-to-single", "package main\n\nimport (\n\t\"fmt\"\n\t\"os\"\n)\n\ntempl t(s string) {\n\t<p>{ fmt.Sprint(s) }</p>\n}\n")
	add("css-oneline-grows", "package main\n\ncss cl() { color: red; background: blue; }\n\ntempl t() {\n\t<p>x</p>\n}\n")
	add("script-blank", "package main\n\nscript sc() {\n\n\talert(1);\n\n}\n\n\n\ntempl t() {\n\t<p>x</p>\n}\n")
	add("header-blank", "// header\n\n\n\npackage main\n\n\ntempl t() {\n\t<p>x</p>\n}\n")
	add("crlf", "package main\r\n\r\n\r\ntempl t() {\r\n\r\n\t<p>x</p>\r\n}\r\n")
	add("utf16-astral-last-line", "package main\n\ntempl t() {\n\t<p>😀😀 é</p>\n}\n// 😀😀😀 trailing comment without newline")
	add("long-last-line", "package main\n\ntempl t() {\n\t<p>x</p>\n}\n\n\n// "+strings.Repeat("tail ", 30))
	add("only-package", "package main\n")
	add("only-package-blank", "package main\n\n\n\n")
	add("many-lines-to-few", "package main\n\ntempl t() {\n\t<div\n\n\n\n\n\n\n\n\n\n\t></div>\n\n\n\n\n\n\n\n\n}\n\n\n\n\n\n")
	return cells
}

// SaveVariant respells a whole file so that formatting changes its line
// count: 0 as it is, 1 extra blank lines (after the package clause, between
// lines, at the end), 2 no final newline, 3 the first tag spelled over two
// lines, 4 trailing blank lines only.
func SaveVariant(src string, variant int) string {
	switch variant {
	case 1:
		src = strings.Replace(src, "package main\n\n", "package main\n\n\n\n", 1)
		i := strings.Index(src, "{\n")
		if i >= 0 {
			head, body := src[:i+2], src[i+2:]
			src = head + "\n" + strings.ReplaceAll(body, ">\n", ">\n\n")
		}
		return src + "\n\n"
	case 2:
		return strings.TrimRight(src, "\n")
	case 3:
		if i := strings.Index(src, ">"); i > 0 && src[i-1] != '-' && src[i-1] != '/' && !strings.Contains(src[:i], "!") {
			return src[:i] + "\n" + src[i:]
		}
		return src
	case 4:
		return src + "\n\n\n"
	}
	return src
}

// ---- fourth round: trailing line comments in string expressions, lone CR
// separators, CRLF files with regions the formatter copies verbatim

// LineCommentCells: a `//` comment as the last token inside a string
// expression, closing brace on the next line. `templ generate` only accepts
// the spelling with a comma in front of the comment (the expression becomes
// an argument list that may end in ",\n"); the comma-less spelling is kept as
// a cell too (it is rejected, so it does not count). Block comments as controls.
func LineCommentCells() []Cell {
	var cells []Cell
	add := func(name, body string) {
		body += "\n"
		cells = append(cells, Cell{Name: "cell=lc-" + name, Body: body, Src: FileOf(body), NoBase: true})
	}
	for _, e := range []struct{ name, x string }{
		{"comma-linecomment", "{ s, // c\n}"},
		{"comma-linecomment-indented-close", "{ s, // c\n\t}"},
		{"comma-linecomment-long", "{ f(s), // the visitor's display name\n}"},
		{"comma-linecomment-tight", "{s,//c\n}"},
		{"comma-linecomment-blank", "{ s, // c\n\n}"},
		{"comma-blockcomment-newline", "{ s, /* c */\n}"},
		{"linecomment-nocomma", "{ s // c\n}"},
		{"blockcomment-newline", "{ s /* c */\n}"},
		{"blockcomment", "{ s /* c */ }"},
		{"two-args-linecomment", "{ s, nil, // c\n}"},
		{"multi-linecomments", "{ s, // c\n// d\n}"},
	} {
		add("top-"+e.name, e.x)
		add("div-"+e.name, "<div>"+e.x+"</div>")
		add("div-multiline-"+e.name, "<div>\n"+e.x+"\n</div>")
		add("span-text-"+e.name, "<span>a "+e.x+" b</span>")
		add("if-"+e.name, "if b {\n"+e.x+"\n}")
		add("for-"+e.name, "for _, v := range vs {\n{ v }"+e.x+"\n}")
		add("case-"+e.name, "switch s {\ncase \"a\":\n"+e.x+"\n}")
		add("callblock-"+e.name, "@w() {\n"+e.x+"\n}")
		add("then-sibling-"+e.name, e.x+"<b>x</b>")
	}
	t := "templ t() {\n<div>x</div>\n}\n"
	for _, e := range []struct{ name, x string }{
		{"comma-linecomment", "{ v, // c\n\t}"},
		{"comma-linecomment-close-col0", "{ v, // c\n}"},
		{"linecomment-nocomma", "{ v // c\n\t}"},
		{"blockcomment", "{ v /* c */ }"},
		{"comma-blockcomment-newline", "{ v, /* c */\n\t}"},
	} {
		src := "package main\n\ncss cl(v string) {\n\twidth: " + e.x + ";\n\tcolor: red;\n}\n\n" + t
		cells = append(cells, Cell{Name: "cell=lc-css-" + e.name, Src: src, NoBase: true})
	}
	return cells
}

// CRCells: a lone carriage return (and "\r\r", " \r", "\r ", "\r\n") as the
// separator between inline siblings of one-line elements, as lead / trail
// whitespace, and between nodes of bodies.
func CRCells() []Cell {
	var cells []Cell
	add := func(name, body string) {
		body += "\n"
		cells = append(cells, Cell{Name: "cell=cr-" + name, Body: body, Src: FileOf(body), NoBase: true})
	}
	seps := []struct{ n, s string }{{"cr", "\r"}, {"crcr", "\r\r"}, {"spcr", " \r"}, {"crsp", "\r "}, {"crlf", "\r\n"}, {"tabcr", "\t\r"}, {"crtab", "\r\t"}}
	inl := []struct{ n, s string }{{"text", "aa"}, {"expr", "{ s }"}, {"span", "<span>x</span>"}, {"b", "<b>y</b>"}, {"emptyspan", "<span></span>"}, {"input", "<input/>"}, {"gocode", "{{ _ = s }}"}, {"call", "@c()"}, {"htmlcomment", "<!-- c -->"}}
	for _, sp := range seps {
		for _, a := range inl {
			for _, b := range inl {
				if a.n == "call" && (b.n == "text" || b.n == "expr" || b.n == "gocode") {
					continue
				}
				add("div-"+a.n+"-"+sp.n+"-"+b.n, "<div>"+a.s+sp.s+b.s+"</div>")
				add("span-"+a.n+"-"+sp.n+"-"+b.n, "<span>"+a.s+sp.s+b.s+"</span>")
			}
			add("top-"+a.n+"-"+sp.n+"-text", a.s+sp.s+"bb")
			add("p-lead-trail-"+sp.n+"-"+a.n, "<p>"+sp.s+a.s+sp.s+"</p>")
			add("if-"+a.n+"-"+sp.n+"-span", "if b {\n"+a.s+sp.s+"<span>x</span>\n}")
			add("three-"+a.n+"-"+sp.n, "<p>"+a.s+sp.s+"<i>m</i>"+sp.s+a.s+"</p>")
		}
		add("attr-sep-"+sp.n, "<div id=\"i\""+sp.s+"class=\"a\">x</div>")
		add("text-words-"+sp.n, "<p>aa"+sp.s+"bb</p>")
		add("after-open-brace-"+sp.n, "if b {"+sp.s+"\n<i>x</i>\n}")
	}
	return cells
}

// CRLFCells: whole files with Windows (and mixed) line endings that contain
// regions the formatter copies verbatim.
func CRLFCells() []Cell {
	var cells []Cell
	add := func(name, src string) {
		cells = append(cells, Cell{Name: "cell=crlf-" + name, Src: strings.ReplaceAll(src, "\n", "\r\n"), NoBase: true})
	}
	t := "templ t(s string) {\n\t<div>{ s }</div>\n}\n"
	add("plain", "package main\n\n"+t)
	add("html-comment-multi", "package main\n\ntempl t() {\n\t<!--\n\t a\n\t b\n\t-->\n\t<p>x</p>\n}\n")
	add("go-comment-multi", "package main\n\ntempl t() {\n\t/*\n\t a\n\t b\n\t*/\n\t<p>x</p>\n}\n")
	add("script-element", "package main\n\ntempl t() {\n\t<script>\n\t\tvar x = 1;\n\t\tvar y = 2;\n\t</script>\n}\n")
	add("style-element", "package main\n\ntempl t() {\n\t<style>\n\t\tp { color: red; }\n\t\tb { color: blue; }\n\t</style>\n}\n")
	add("script-template", "package main\n\nscript sc(a string) {\n\talert(a);\n\talert(a);\n}\n\n"+t)
	add("css-template", "package main\n\ncss cl() {\n\tcolor: red;\n\twidth: 1px;\n}\n\n"+t)
	add("go-block", "package main\n\nimport \"fmt\"\n\n// doc\n// more\nfunc f(s string) string {\n\treturn fmt.Sprint(s)\n}\n\n"+t)
	add("go-block-rawstring", "package main\n\nvar x = `a\nb\nc`\n\n"+t)
	add("gocode-multi", "package main\n\ntempl t() {\n\t{{\n\t\tv := 1\n\t\t_ = v\n\t}}\n\t<p>x</p>\n}\n")
	add("expr-rawstring", "package main\n\ntempl t() {\n\t<p>{ `a\nb` }</p>\n}\n")
	add("call-multi", "package main\n\ntempl t(s string) {\n\t@u(\n\t\ts,\n\t)\n}\n\ntempl u(s string) {\n\t<p>{ s }</p>\n}\n")
	add("attr-expr-multi", "package main\n\ntempl t() {\n\t<div class={\n\t\t\"a\",\n\t\t\"b\",\n\t}>x</div>\n}\n")
	add("attr-const-multi", "package main\n\ntempl t() {\n\t<div data-x=\"a\n\tb\">x</div>\n}\n")
	add("header-comment", "// header\n// more\n\npackage main\n\n"+t)
	add("header-block-comment", "/*\n header\n*/\npackage main\n\n"+t)
	add("text-multi", "package main\n\ntempl t() {\n\t<p>\n\t\taa bb\n\t\tcc dd\n\t</p>\n}\n")
	add("pre", "package main\n\ntempl t() {\n\t<pre>\n a\n  b\n</pre>\n}\n")
	add("everything", "// h\npackage main\n\nimport \"fmt\"\n\n/*\n c\n*/\nfunc f() string { return fmt.Sprint(1) }\n\ncss cl() {\n\tcolor: red;\n}\n\nscript sc() {\n\tvar a = 1;\n\tvar b = 2;\n}\n\ntempl t() {\n\t<!--\n\t x\n\t-->\n\t<script>\n\t\tvar x;\n\t</script>\n\t<p class={ cl() }>{ f() }</p>\n}\n")
	// mixed endings: LF file whose verbatim regions have CRLF, and the reverse
	cells = append(cells,
		Cell{Name: "cell=crlf-mixed-comment-crlf-in-lf-file", Src: "package main\n\ntempl t() {\n\t<!--\r\n\t a\r\n\t-->\n\t<p>x</p>\n}\n", NoBase: true},
		Cell{Name: "cell=crlf-mixed-script-crlf-in-lf-file", Src: "package main\n\ntempl t() {\n\t<script>\r\n\t\tvar x;\r\n\t</script>\n}\n", NoBase: true},
		Cell{Name: "cell=crlf-mixed-scripttemplate-crlf-in-lf-file", Src: "package main\n\nscript sc() {\r\n\tvar a = 1;\r\n}\n\n" + t, NoBase: true},
		Cell{Name: "cell=crlf-mixed-lf-comment-in-crlf-file", Src: "package main\r\n\r\ntempl t() {\r\n\t<!--\n\t a\n\t-->\r\n\t<p>x</p>\r\n}\r\n", NoBase: true},
		Cell{Name: "cell=crlf-mixed-last-line-only", Src: "package main\n\n" + t[:len(t)-1] + "\r\n", NoBase: true},
	)
	return cells
}

// ---- fifth round: a lone carriage return inside Go sections

// GoCRCells: Go code between templates (and in the header, in expressions)
// with a lone CR — in an interpreted string or a rune literal it is an
// ordinary character of the value; Go discards it in raw strings and
// comments. Each in an LF file and in a CRLF file.
func GoCRCells() []Cell {
	var cells []Cell
	t := "templ t(s string) {\n\t<div>{ s }</div>\n}\n"
	add := func(name, src string) {
		cells = append(cells, Cell{Name: "cell=gocr-" + name, Src: src, NoBase: true})
		// CRLF file: every LF becomes CRLF, the lone CR stays what it is
		cells = append(cells, Cell{Name: "cell=gocr-" + name + "-crlf-file", Src: strings.ReplaceAll(src, "\n", "\r\n"), NoBase: true})
	}
	add("const-string", "package main\n\nconst msg = \"loading...\rdone\"\n\n"+t)
	add("const-string-start", "package main\n\nconst msg = \"\rdone\"\n\n"+t)
	add("const-string-end", "package main\n\nconst msg = \"loading\r\"\n\n"+t)
	add("const-string-two", "package main\n\nconst msg = \"a\r\rb\"\n\n"+t)
	add("var-string", "package main\n\nvar msg = \"a\rb\"\n\n"+t)
	add("var-group", "package main\n\nvar (\n\ta = \"x\ry\"\n\tb = 1\n)\n\n"+t)
	add("func-return-string", "package main\n\nfunc msg() string {\n\treturn \"a\rb\"\n}\n\n"+t)
	add("func-call-arg", "package main\n\nimport \"strings\"\n\nfunc msg() string {\n\treturn strings.ToUpper(\"a\rb\")\n}\n\n"+t)
	add("rune", "package main\n\nconst cr = '\r'\n\n"+t)
	add("struct-tag", "package main\n\ntype st struct {\n\tA string \"k:\\\"a\rb\\\"\"\n}\n\n"+t)
	add("rawstring", "package main\n\nconst msg = `a\rb`\n\n"+t)
	add("rawstring-multi", "package main\n\nconst msg = `a\r\nb\rc\n`\n\n"+t)
	add("line-comment", "package main\n\n// a\rb\nconst k = 1\n\n"+t)
	add("line-comment-end", "package main\n\nconst k = 1 // a\r\n\n"+t)
	add("block-comment", "package main\n\n/* a\rb */\nconst k = 1\n\n"+t)
	add("between-tokens", "package main\n\nconst k =\r1\n\n"+t)
	add("after-decl", "package main\n\nconst k = 1\r\nconst l = 2\n\n"+t)
	add("string-and-comment", "package main\n\nconst msg = \"a\rb\" // c\rd\n\n"+t)
	add("after-templ", "package main\n\n"+t+"\nconst msg = \"a\rb\"\n")
	add("between-templs", "package main\n\n"+t+"\nconst msg = \"a\rb\"\n\ntempl u() {\n\t<p>x</p>\n}\n")
	add("header-comment", "// a\rb\npackage main\n\n"+t)
	add("import-path-alias-comment", "package main\n\nimport \"fmt\" // x\ry\n\nvar _ = fmt.Sprint\n\n"+t)
	// expressions inside templates (not Go sections, same question)
	add("expr-string", "package main\n\ntempl t() {\n\t<div>{ \"a\rb\" }</div>\n}\n")
	add("attr-expr-string", "package main\n\ntempl t() {\n\t<div title={ \"a\rb\" }>x</div>\n}\n")
	add("call-arg-string", "package main\n\ntempl t() {\n\t@u(\"a\rb\")\n}\n\ntempl u(s string) {\n\t<p>{ s }</p>\n}\n")
	add("gocode-string", "package main\n\ntempl t() {\n\t{{ v := \"a\rb\" }}\n\t<p>{ v }</p>\n}\n")
	add("if-cond-string", "package main\n\ntempl t(s string) {\n\tif s == \"a\rb\" {\n\t\t<p>x</p>\n\t}\n}\n")
	add("script-template-string", "package main\n\nscript sc() {\n\tvar a = \"x\ry\";\n}\n\n"+t)
	add("css-value", "package main\n\ncss cl() {\n\tcontent: \"a\rb\";\n}\n\n"+t)
	add("const-attr", "package main\n\ntempl t() {\n\t<div title=\"a\rb\">x</div>\n}\n")
	return cells
}
