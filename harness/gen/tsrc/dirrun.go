package tsrc

import (
	"fmt"
	"runtime"
	"sync"

	"verif/core"
)

// RunDirJobs is the multi-file workload of `templ fmt <dir>`: bases are whole
// files that the single-file path handles correctly (passes) and idempotently,
// so that whatever goes wrong is due to formatting them together.
func RunDirJobs(c *core.Ctx, what string, passes func(src string) bool, judge DirJudge) {
	var smu sync.Mutex
	cache := map[string][2]any{}
	single := func(src string) (string, error) {
		smu.Lock()
		v, ok := cache[src]
		smu.Unlock()
		if ok {
			e, _ := v[1].(error)
			return v[0].(string), e
		}
		out, err := FmtFile(src)
		smu.Lock()
		cache[src] = [2]any{out, err}
		smu.Unlock()
		return out, err
	}
	classOf := func(j DirJob) (string, string) {
		res, err := RunDir(j)
		if err != nil {
			return "", ""
		}
		return judge(j, res, single)
	}
	report := func(j DirJob, class, origin string) {
		red := ReduceDirJob(j, class, func(x DirJob) string { cl, _ := classOf(x); return cl })
		cl, detail := classOf(red)
		if cl != class { // flaky under reduction: report the unreduced job
			red = j
			_, detail = classOf(j)
		}
		key := "fmtdir:" + red.Key()
		c.Violate(key, fmt.Sprintf("%s [%s] witness %s (from %s): %s", what, class, key, origin, detail), Case{Origin: origin, Mode: "fmtdir", Dir: &red})
	}
	if c.ReplayFile != "" {
		var cs Case
		c.LoadReplay(&cs)
		if cs.Mode == "fmtdir" && cs.Dir != nil {
			c.Eval(len(cs.Dir.Files))
			c.NontrivialN(2)
			if cl, _ := classOf(*cs.Dir); cl != "" {
				report(*cs.Dir, cl, "replay:"+cs.Origin)
			}
		}
		return
	}
	// bases
	var cand []string
	for _, cl := range ImportCells() {
		cand = append(cand, cl.Src)
	}
	for _, cl := range SaveCells() {
		cand = append(cand, cl.Src)
	}
	for _, cl := range CRLFCells() {
		cand = append(cand, cl.Src)
	}
	r := c.Rand("fmtdir")
	m := Matrix()
	for i := 0; i < 300; i++ {
		cand = append(cand, m[r.Intn(len(m))].Src)
	}
	ok := make([]bool, len(cand))
	var bw sync.WaitGroup
	bch := make(chan int, 64)
	for w := 0; w < runtime.NumCPU(); w++ {
		bw.Add(1)
		go func() {
			defer bw.Done()
			for i := range bch {
				src := cand[i]
				if _, err := Gen(src); err != nil {
					continue
				}
				F, err := single(src)
				if err != nil {
					continue
				}
				if F2, err := single(F); err != nil || F2 != F || !passes(src) {
					continue
				}
				ok[i] = true
			}
		}()
	}
	for i := range cand {
		bch <- i
	}
	close(bch)
	bw.Wait()
	var bases []string
	for i, src := range cand {
		if ok[i] {
			bases = append(bases, src)
		}
	}
	if len(bases) < 50 {
		core.Infra("only %d bases for directory jobs", len(bases))
	}
	jobs := DirJobs(r, bases, func(s string) string { f, _ := single(s); return f }, c.Pick(150, 1500))
	var wg sync.WaitGroup
	ch := make(chan int, 64)
	var mu sync.Mutex
	files, formatted, changedJobs := 0, 0, 0
	byWorkers := map[string]int{}
	for w := 0; w < runtime.NumCPU(); w++ {
		wg.Add(1)
		go func() {
			defer wg.Done()
			for i := range ch {
				j := jobs[i]
				res, err := RunDir(j)
				if err != nil {
					c.Inconclusive("directory job: " + err.Error())
					continue
				}
				c.Eval(len(j.Files))
				nf := 0
				for _, f := range j.Files {
					if f.Formatted {
						nf++
					}
				}
				mu.Lock()
				files += len(j.Files)
				formatted += nf
				if nf < len(j.Files) {
					changedJobs++
				}
				byWorkers[fmt.Sprint("workers=", j.Workers)]++
				mu.Unlock()
				c.NontrivialStr("fmtdir", j.Key())
				if class, _ := judge(j, res, single); class != "" {
					report(j, class, fmt.Sprintf("fmtdir:job%d", i))
				}
			}
		}()
	}
	for i := range jobs {
		ch <- i
	}
	close(ch)
	wg.Wait()
	c.Set("fmtdir_jobs", len(jobs))
	c.Set("fmtdir_files", files)
	c.Set("fmtdir_files_already_formatted", formatted)
	c.Set("fmtdir_jobs_with_a_file_to_change", changedJobs)
	c.Set("fmtdir_jobs_by_workers", byWorkers)
	c.Set("fmtdir_bases", len(bases))
}
