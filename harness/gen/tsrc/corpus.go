package tsrc

// corpus.go: program sources found in the repository under test at run time.

import (
	"bytes"
	"os"
	"path/filepath"
	"sort"
	"strings"
)

// Prog is one program with its provenance.
type Prog struct {
	Origin string // "repo:<path>", "fmtdata:<file>:in", "doc:<file>#n", "matrix:<cell>", "cell:<name>", "random:<i>", "mutant:<i>"
	Src    string
}

// RepoFiles returns every .templ file below repo.
func RepoFiles(repo string) []Prog {
	var out []Prog
	_ = filepath.Walk(repo, func(p string, info os.FileInfo, err error) error {
		if err != nil {
			return nil
		}
		if info.IsDir() && (info.Name() == ".git" || info.Name() == "node_modules") {
			return filepath.SkipDir
		}
		if !info.IsDir() && strings.HasSuffix(p, ".templ") {
			if b, err := os.ReadFile(p); err == nil {
				rel, _ := filepath.Rel(repo, p)
				out = append(out, Prog{"repo:" + rel, string(b)})
			}
		}
		return nil
	})
	sort.Slice(out, func(i, j int) bool { return out[i].Origin < out[j].Origin })
	return out
}

// FormatTestData returns the inputs and the expected outputs of
// parser/v2/formattestdata (txtar files with two sections), cleaned the way
// TestFormatting cleans them.
func FormatTestData(repo string) []Prog {
	files, _ := filepath.Glob(filepath.Join(repo, "parser/v2/formattestdata/*.txt"))
	sort.Strings(files)
	var out []Prog
	for _, f := range files {
		b, err := os.ReadFile(f)
		if err != nil {
			continue
		}
		secs := splitTxtar(b)
		for i, s := range secs {
			s = bytes.ReplaceAll(s, []byte("$\n"), []byte("\n"))
			tag := "in"
			if i == 1 {
				tag = "out"
				out = append(out, Prog{"fmtdata:" + filepath.Base(f) + ":" + tag, string(s)})
				continue
			}
			out = append(out, Prog{"fmtdata:" + filepath.Base(f) + ":" + tag, string(bytes.TrimSuffix(s, []byte("\n")))})
		}
	}
	return out
}

func splitTxtar(b []byte) [][]byte {
	var secs [][]byte
	var cur []byte
	started := false
	for _, line := range bytes.SplitAfter(b, []byte("\n")) {
		t := bytes.TrimSpace(line)
		if bytes.HasPrefix(t, []byte("-- ")) && bytes.HasSuffix(t, []byte(" --")) {
			if started {
				secs = append(secs, cur)
			}
			cur, started = nil, true
			continue
		}
		if started {
			cur = append(cur, line...)
		}
	}
	if started {
		secs = append(secs, cur)
	}
	return secs
}

// DocBlocks returns the ```templ fenced code blocks of the documentation.
// Blocks without a package clause get one.
func DocBlocks(repo string) []Prog {
	var out []Prog
	_ = filepath.Walk(filepath.Join(repo, "docs"), func(p string, info os.FileInfo, err error) error {
		if err != nil || info.IsDir() || !strings.HasSuffix(p, ".md") {
			return nil
		}
		b, err := os.ReadFile(p)
		if err != nil {
			return nil
		}
		rel, _ := filepath.Rel(repo, p)
		n := 0
		in := false
		var cur strings.Builder
		for _, line := range strings.SplitAfter(string(b), "\n") {
			t := strings.TrimSpace(line)
			if !in && strings.HasPrefix(t, "```templ") {
				in = true
				cur.Reset()
				continue
			}
			if in && strings.HasPrefix(t, "```") {
				in = false
				src := cur.String()
				if !strings.Contains(src, "package ") {
					src = "package main\n\n" + src
				}
				n++
				out = append(out, Prog{"doc:" + rel + "#" + itoa(n), src})
				continue
			}
			if in {
				cur.WriteString(line)
			}
		}
		return nil
	})
	sort.Slice(out, func(i, j int) bool { return out[i].Origin < out[j].Origin })
	return out
}

func itoa(n int) string {
	if n == 0 {
		return "0"
	}
	var b []byte
	for n > 0 {
		b = append([]byte{byte('0' + n%10)}, b...)
		n /= 10
	}
	return string(b)
}
