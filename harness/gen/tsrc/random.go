package tsrc

// random.go: seeded random compositions of the pieces of cells.go (nested,
// depth <= 4) in random concrete spellings, and token-level mutations of
// existing programs.

import (
	"math/rand"
	"strings"
)

type rgen struct {
	r *rand.Rand
	f *File
}

func pick[T any](r *rand.Rand, xs ...T) T { return xs[r.Intn(len(xs))] }

// ws returns a random whitespace string, mostly the three class representatives.
func (g *rgen) ws() string {
	switch g.r.Intn(12) {
	case 0, 1, 2:
		return ""
	case 3, 4, 5:
		return " "
	case 6, 7, 8:
		return "\n"
	case 9:
		return "\n\t"
	case 10:
		return pick(g.r, "  ", "\t", " \n", "\n\n")
	}
	return pick(g.r, "\n\t\t", "\r\n", "\n \n")
}

func (g *rgen) nl() string { return pick(g.r, "\n", "\n", "\n", "\n\t", "\n\n", "\n  ") }

func (g *rgen) pad() (string, string) {
	switch g.r.Intn(8) {
	case 0:
		return "", ""
	case 1:
		return "  ", "  "
	case 2:
		return "", " "
	case 3:
		return " ", ""
	}
	return " ", " "
}

var (
	rTexts       = []string{"aa", "a b", "x", "Hello, world", "a &amp; b", "1 &lt; 2", "it's", `say "x"`, "é✓", "a > b", "lorem ipsum dolor", "&nbsp;", "a.", ",", "-"}
	rStrExprs    = []string{"s", `"lit"`, "f(s)", `s + "x"`, "g(s)", `fmt.Sprintf("%s", s)`, "s /* c */", "f( s )", "f(\ns,\n)", "`raw`", `"}"`, "vs[0]"}
	rBoolExprs   = []string{"b", "!b", `s == "a"`, "b && !b", "len(vs) > 0", "b /* c */"}
	rInline      = []string{"span", "b", "i", "a", "em", "strong", "label", "code", "small", "button", "my-el"}
	rBlock       = []string{"div", "p", "section", "ul", "li", "h1", "table", "tr", "td", "form", "main", "pre", "title", "head", "body", "html", "nav"}
	rVoid        = []string{"br", "hr", "input", "img", "meta", "link", "wbr"}
	rConstVals   = []string{`="v"`, `=""`, `='v'`, `=v`, `="a b"`, `="&amp;"`, `="&lt;"`, `="&amp;lt;"`, `="&quot;"`, `='&#39;'`, `="it's"`, `='say "x"'`, `="a&b"`, `="/p?a=1&amp;b=2"`, `="é"`, `='{"a":"b"}'`}
	rAttrNames   = []string{"title", "class", "id", "data-x", "href", "style", "value", "hx-get", "x:y", "@click", "aria-label"}
	rCalls       = []string{"c()", "c()", "c2(s, b)", "st.c()", "templ.Raw(s)", "c2(\ns,\nb,\n)", "c2( s,b )"}
	rGoCode      = []string{"v := 1", "v:=1", "u := f(s)", "v := 1 // c\n", "v := 1\nu := 2", "_ = s"}
	rForHeads    = []string{"_, v := range vs", "i := 0; i < 2; i++", "i := range vs", "b", "i:=0;i<2;i++"}
	rSwitchHeads = []string{"s", "", "v := s; v"}
	rComments    = []string{" c ", "c", " a\n b ", "", " <b> & { s } "}
)

func (g *rgen) attr(depth int) *Attr {
	a := &Attr{Before: pick(g.r, " ", " ", " ", " ", "\n", "\n\t", "  ")}
	switch g.r.Intn(10) {
	case 0, 1, 2, 3:
		a.K, a.Name = AConst, pick(g.r, rAttrNames...)
		raw := pick(g.r, rConstVals...)
		if raw[1] == '"' || raw[1] == '\'' {
			a.Q, a.Val = raw[1:2], raw[2:len(raw)-1]
		} else {
			a.Val = raw[1:]
		}
	case 4:
		a.K, a.Name = ABool, pick(g.r, "disabled", "hidden", "checked", "data-on")
	case 5:
		a.K, a.Name, a.S = ABoolExpr, pick(g.r, "disabled", "hidden"), pick(g.r, rBoolExprs...)
		a.PadL, a.PadR = g.pad()
	case 6, 7:
		a.K, a.Name, a.S = AExpr, pick(g.r, rAttrNames...), pick(g.r, rStrExprs...)
		if a.Name == "href" {
			a.S = "templ.URL(" + pick(g.r, "s", `"x"`) + ")"
		}
		if a.Name == "class" && g.r.Intn(2) == 0 {
			a.S = pick(g.r, `"a", "b"`, `"a", templ.KV("b", b)`, "\n\"a\",\n\"b\",\n")
		}
		a.PadL, a.PadR = g.pad()
	case 8:
		a.K, a.S = ASpread, pick(g.r, "at", "at", "f2(s)")
		a.PadL, a.PadR = g.pad()
	case 9:
		if depth >= 2 {
			a.K, a.Name = ABool, "hidden"
			break
		}
		a.K, a.S = ACond, pick(g.r, rBoolExprs[:5]...)
		multi := g.r.Intn(2) == 0
		n := 1 + g.r.Intn(2)
		for i := 0; i < n; i++ {
			t := g.attr(depth + 1)
			if multi {
				t.Before = "\n"
			} else {
				t.Before = " "
			}
			a.Then = append(a.Then, t)
		}
		a.ThenEnd = map[bool]string{true: "\n", false: " "}[multi]
		if g.r.Intn(3) == 0 {
			a.HasElse = true
			e := g.attr(depth + 1)
			e.Before = a.Then[0].Before
			a.Else = []*Attr{e}
			a.ElseEnd = a.ThenEnd
		}
	}
	return a
}

func (g *rgen) attrs() []*Attr {
	var as []*Attr
	if g.r.Intn(3) == 0 {
		n := 1 + g.r.Intn(3)
		for i := 0; i < n; i++ {
			as = append(as, g.attr(0))
		}
	}
	return as
}

// node returns a random node; inElem says the parent is an element (control
// flow keywords and calls are still allowed there).
func (g *rgen) node(depth int) *Node {
	r := g.r
	n := &Node{After: g.ws()}
	k := r.Intn(30)
	if depth >= 4 && k >= 12 && k <= 21 {
		k = r.Intn(12)
	}
	switch k {
	case 0, 1, 2:
		n.K, n.S = KText, pick(r, rTexts...)
	case 3, 4:
		n.K, n.S = KExpr, pick(r, rStrExprs...)
		n.PadL, n.PadR = g.pad()
	case 5:
		n.K, n.N, n.Void, n.Self = KElem, pick(r, rVoid...), true, r.Intn(4) != 0
		n.Attrs = g.attrs()
		if len(n.Attrs) > 0 && r.Intn(4) == 0 {
			n.TagEnd = pick(r, " ", "\n")
		}
	case 6:
		n.K, n.S = KHTMLComment, pick(r, rComments...)
	case 7:
		if r.Intn(2) == 0 {
			n.K, n.S = KGoComment, pick(r, rComments[:4]...)
		} else {
			n.K, n.S, n.After = KGoLine, pick(r, " c", "c", ""), g.nl()
		}
	case 8:
		n.K, n.S = KCall, pick(r, rCalls...)
	case 9:
		switch r.Intn(3) {
		case 0:
			n.K, n.S = KLegacyCall, pick(r, "c()", "c2(s, b)")
			n.PadL, n.PadR = g.pad()
		case 1:
			n.K = KChildren
			n.PadL, n.PadR = g.pad()
		default:
			n.K, n.S = KDoctype, pick(r, "html", "html", `HTML PUBLIC "-//W3C//DTD HTML 4.01//EN"`)
		}
	case 10:
		n.K, n.S = KGoCode, pick(r, rGoCode...)
		n.PadL, n.PadR = g.pad()
		if strings.Contains(n.S, "\n") {
			n.PadL, n.PadR = "\n", "\n"
		}
	case 11:
		n.K = KRaw
		if r.Intn(2) == 0 {
			n.N, n.S = "style", pick(r, "p{}", "\np { color: red; }\n", "")
		} else {
			n.N, n.S = "script", pick(r, "var x;", "\nvar x = {{ s }};\n", "", "var y = \"{{ s }}\";")
		}
		n.Attrs = g.attrs()
	case 12, 13, 14, 15: // inline element
		n.K, n.N = KElem, pick(r, rInline...)
		n.Attrs = g.attrs()
		n.Lead = pick(r, "", "", "", " ", "\n")
		n.Kids = g.list(depth+1, 0, 3)
	case 16, 17, 18, 19: // block element
		n.K, n.N = KElem, pick(r, rBlock...)
		n.Attrs = g.attrs()
		n.Lead = pick(r, "", "", "\n", "\n", "\n\t", " ")
		n.Kids = g.list(depth+1, 0, 4)
	case 20:
		n.K, n.S, n.Block, n.BlockPad = KCall, pick(r, "w()", "w()", "w2(s)"), true, pick(r, " ", " ", " ", "")
		n.Lead = pick(r, "\n", "\n", "\n", " ", "")
		n.Kids = g.list(depth+1, 1, 3)
	case 21, 22, 23, 24:
		n.K, n.S = KIf, pick(r, rBoolExprs...)
		n.Lead = g.nl()
		n.Kids = g.list(depth+1, 0, 3)
		if r.Intn(3) == 0 {
			if r.Intn(2) == 0 {
				n.Arms = append(n.Arms, &Arm{Head: "else if " + pick(r, rBoolExprs[:5]...), Lead: g.nl(), Kids: g.list(depth+1, 1, 2)})
			}
			n.Arms = append(n.Arms, &Arm{Head: "else", Lead: pick(r, "\n", "\n", "\n\t", " "), Kids: g.list(depth+1, 1, 2)})
		}
	case 25, 26, 27:
		n.K, n.S = KFor, pick(r, rForHeads...)
		n.Lead = g.nl()
		n.Kids = g.list(depth+1, 0, 3)
	default:
		n.K, n.S, n.Lead = KSwitch, pick(r, rSwitchHeads...), g.nl()
		na := 1 + r.Intn(3)
		for i := 0; i < na; i++ {
			h := `case "` + string(rune('a'+i)) + `":`
			if n.S == "" {
				h = "case " + pick(r, "b", "!b", `s == "a"`) + ":"
			}
			if i == na-1 && r.Intn(2) == 0 {
				h = "default:"
			}
			n.Arms = append(n.Arms, &Arm{Head: h, Lead: pick(r, "\n", "\n", "\n", "\n\t", " "), Kids: g.list(depth+1, 0, 2)})
		}
	}
	return n
}

func (g *rgen) list(depth, min, max int) []*Node {
	n := min + g.r.Intn(max-min+1)
	out := make([]*Node, 0, n)
	for i := 0; i < n; i++ {
		out = append(out, g.node(depth))
	}
	return out
}

// Random returns a random self-contained file.
func Random(r *rand.Rand) string {
	g := &rgen{r: r, f: NewFile()}
	f := g.f
	if r.Intn(8) == 0 {
		f.Header = pick(r, "// header\n", "// header\n\n", "//go:build !x\n\n", "/* h */\n")
	}
	if r.Intn(5) == 0 {
		f.AddGo(pick(r, "import \"fmt\"\n\nvar _ = fmt.Sprint", "// doc\nconst k = 1", "type st struct{ A string }", "func  h( a string )string{return a}"))
	}
	nt := 1
	if r.Intn(6) == 0 {
		nt = 2
	}
	for i := 0; i < nt; i++ {
		sig := TestSig
		if i > 0 {
			sig = "t" + itoa(i+1) + TestSig[1:]
		}
		it := f.AddTempl(sig, g.list(0, 1, 4)...)
		it.Lead = g.nl()
		if r.Intn(10) == 0 {
			it.Sep = "\n"
		}
	}
	if r.Intn(10) == 0 {
		f.AddGo(pick(r, "css cl() {\n\tcolor: red;\n}", "css cl(v string) { color: { v }; }", "script sc(a string) {\n\talert(a);\n}"))
	}
	return f.String()
}

// Mutate applies 1–3 token-level mutations to src. Most change, insert or
// remove whitespace tokens; comments and nodes are inserted between two nodes
// or on a line of their own; tokens are (rarely) deleted or duplicated.
func Mutate(r *rand.Rand, src string) string {
	toks := tokenize(src)
	insert := func(i int, t string) { toks = append(toks[:i], append([]string{t}, toks[i:]...)...) }
	// gap moves i forward to the next position between two nodes or at a line start
	gap := func(i int, lineOnly bool) int {
		for k := 0; k < len(toks); k++ {
			j := (i + k) % len(toks)
			if j == 0 {
				continue
			}
			if strings.HasSuffix(toks[j-1], "\n") || (!lineOnly && (toks[j-1] == ">" || toks[j] == "<")) {
				return j
			}
		}
		return i
	}
	nextWS := func(i int) int {
		for k := 0; k < len(toks); k++ {
			if j := (i + k) % len(toks); strings.TrimSpace(toks[j]) == "" {
				return j
			}
		}
		return -1
	}
	n := 1 + r.Intn(3)
	for m := 0; m < n && len(toks) > 4; m++ {
		i := r.Intn(len(toks))
		switch op := r.Intn(26); {
		case op < 8: // change a whitespace token
			if j := nextWS(i); j >= 0 {
				toks[j] = pick(r, "", "", " ", "\n", "\n", "\t", "  ", "\n\n")
			}
		case op < 10: // insert whitespace at a token boundary
			insert(i, pick(r, " ", "\n", "\n\t"))
		case op < 13: // insert a comment
			c := pick(r, "<!-- c -->", "/* c */", "// c\n")
			insert(gap(i, c == "// c\n"), c)
		case op < 14: // delete a token
			toks = append(toks[:i], toks[i+1:]...)
		case op < 15: // duplicate a token
			insert(i, toks[i])
		case op < 17: // swap a quote
			for k := i; k < len(toks); k++ {
				if toks[k] == `"` {
					toks[k] = "'"
					break
				}
			}
		case op < 19: // insert an entity or special character at the start of a text
			for k := i; k < len(toks); k++ {
				if toks[k] == ">" {
					insert(k+1, pick(r, "&amp;", "&lt;", "&quot;", "&amp;lt;", "&#39;", "&"))
					break
				}
			}
		case op < 23: // join two lines
			for k := i; k < len(toks); k++ {
				if strings.Contains(toks[k], "\n") {
					toks[k] = pick(r, "", " ")
					break
				}
			}
		default: // insert a node
			insert(gap(i, false), pick(r, "@c()", "{ s }", "<br/>", "<span>x</span>", "{{ v := 1 }}", "{ children... }", "aa", "{! c() }", "<!DOCTYPE html>"))
		}
	}
	return strings.Join(toks, "")
}
