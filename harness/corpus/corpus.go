// Package corpus builds scratch Go packages out of generated .templ files
// with the real `templ generate` (built from the repository under test) and
// the real Go compiler, and runs the resulting driver binary. Everything lives
// under a mktemp directory outside /repo and /verif and is removed on Close.
package corpus

import (
	"bytes"
	"context"
	"errors"
	"fmt"
	"os"
	"os/exec"
	"path/filepath"
	"strings"
	"sync"
	"time"

	"verif/core"
)

var (
	templMu   sync.Mutex
	templBins = map[string]string{}
	scratches []string
)

func init() { core.AtExit(Cleanup) }

// Env returns the environment for go invocations.
func Env(extra ...string) []string {
	env := os.Environ()
	env = append(env, "GOFLAGS=-mod=mod", "GOPROXY=off", "GOSUMDB=off", "GOTOOLCHAIN=local", "CGO_ENABLED=1")
	return append(env, extra...)
}

// Scratch makes a scratch directory that Cleanup removes.
func Scratch(prefix string) string {
	d, err := os.MkdirTemp("", "verif-"+prefix+"-")
	if err != nil {
		core.Infra("mktemp: %v", err)
	}
	templMu.Lock()
	scratches = append(scratches, d)
	templMu.Unlock()
	return d
}

// Cleanup removes every scratch directory made by this process.
func Cleanup() {
	templMu.Lock()
	defer templMu.Unlock()
	for _, d := range scratches {
		_ = os.RemoveAll(d)
	}
	scratches = nil
	templBins = map[string]string{}
}

// TemplBin builds cmd/templ from the repository under test (tag verif) and
// returns the binary path. Built once per process and per race setting.
func TemplBin(c *core.Ctx, race bool) string {
	templMu.Lock()
	key := fmt.Sprint(race)
	if b, ok := templBins[key]; ok {
		templMu.Unlock()
		return b
	}
	templMu.Unlock()
	// Build from a scratch module that replaces templ with the repository under
	// test, so that `go build -mod=mod` never touches /repo's own go.sum.
	dir := Scratch("templbin")
	bin := filepath.Join(dir, "templ")
	gomod := "module templbin\n\ngo 1.23.0\n\nrequire github.com/a-h/templ v0.0.0\n\nreplace github.com/a-h/templ => " + c.Repo + "\n"
	_ = os.WriteFile(filepath.Join(dir, "go.mod"), []byte(gomod), 0o644)
	if sum, err := os.ReadFile(filepath.Join(c.Repo, "go.sum")); err == nil {
		_ = os.WriteFile(filepath.Join(dir, "go.sum"), sum, 0o644)
	}
	args := []string{"build", "-tags", "verif", "-o", bin}
	if race {
		args = append(args, "-race")
	}
	args = append(args, "github.com/a-h/templ/cmd/templ")
	cmd := exec.Command("go", args...)
	cmd.Dir = dir
	cmd.Env = Env()
	out, err := cmd.CombinedOutput()
	if err != nil {
		core.Infra("building templ from %s failed: %v\n%s", c.Repo, err, out)
	}
	templMu.Lock()
	templBins[key] = bin
	templMu.Unlock()
	return bin
}

// Pkg is one scratch package.
type Pkg struct {
	C   *core.Ctx
	Dir string
}

// New creates an empty scratch module "corpus" whose templ dependency is
// replaced by the repository under test.
func New(c *core.Ctx, name string) *Pkg {
	dir := Scratch(name)
	p := &Pkg{C: c, Dir: dir}
	gomod := "module corpus\n\ngo 1.23.0\n\nrequire github.com/a-h/templ v0.0.0\n\nreplace github.com/a-h/templ => " + c.Repo + "\n"
	p.Write("go.mod", gomod)
	sum, err := os.ReadFile(filepath.Join(c.Repo, "go.sum"))
	if err == nil {
		p.Write("go.sum", string(sum))
	}
	return p
}

func (p *Pkg) Write(name, content string) {
	f := filepath.Join(p.Dir, name)
	_ = os.MkdirAll(filepath.Dir(f), 0o755)
	if err := os.WriteFile(f, []byte(content), 0o644); err != nil {
		core.Infra("write %s: %v", f, err)
	}
}

func (p *Pkg) Read(name string) (string, error) {
	b, err := os.ReadFile(filepath.Join(p.Dir, name))
	return string(b), err
}

// Generate runs `templ generate` (the real CLI) over the package directory.
func (p *Pkg) Generate(extra ...string) (string, error) {
	bin := TemplBin(p.C, false)
	args := append([]string{"generate", "-path", p.Dir}, extra...)
	cmd := exec.Command(bin, args...)
	cmd.Dir = p.Dir
	cmd.Env = Env()
	out, err := cmd.CombinedOutput()
	return string(out), err
}

// Build compiles the package's main (or the sub-path given) into a binary.
func (p *Pkg) Build(race bool, pkgPath string) (bin string, output string, err error) {
	if pkgPath == "" {
		pkgPath = "."
	}
	bin = filepath.Join(p.Dir, "driver.bin")
	if race {
		bin += ".race"
	}
	// -gcflags=-l (scratch package only): generated templates are nests of
	// closures, which the inliner duplicates; without it large corpus packages
	// take minutes to compile. templ itself is compiled normally.
	args := []string{"build", "-tags", "verif", "-gcflags=-l", "-o", bin}
	if race {
		args = append(args, "-race")
	}
	args = append(args, pkgPath)
	cmd := exec.Command("go", args...)
	cmd.Dir = p.Dir
	cmd.Env = Env()
	out, err := cmd.CombinedOutput()
	return bin, string(out), err
}

// Vet-less type check only (go build with -o /dev/null is as slow); BuildOnly
// reports whether the package compiles.
func (p *Pkg) BuildOnly(pkgPath string) (string, error) {
	cmd := exec.Command("go", "build", "-tags", "verif", "-o", os.DevNull, pkgPath)
	cmd.Dir = p.Dir
	cmd.Env = Env()
	out, err := cmd.CombinedOutput()
	return string(out), err
}

// RunResult of a driver execution.
type RunResult struct {
	Stdout, Stderr []byte
	Err            error
	TimedOut       bool
	ExitCode       int
}

// Run executes a binary with stdin, extra env and a wall-clock watchdog (the
// watchdog firing is reported, never interpreted here).
func Run(bin string, args []string, stdin []byte, env []string, dir string, timeout time.Duration) RunResult {
	ctx, cancel := context.WithTimeout(context.Background(), timeout)
	defer cancel()
	cmd := exec.CommandContext(ctx, bin, args...)
	cmd.Dir = dir
	cmd.Env = Env(env...)
	cmd.Stdin = bytes.NewReader(stdin)
	var so, se bytes.Buffer
	cmd.Stdout = &so
	cmd.Stderr = &se
	err := cmd.Run()
	r := RunResult{Stdout: so.Bytes(), Stderr: se.Bytes(), Err: err}
	if ctx.Err() != nil {
		r.TimedOut = true
	}
	var ee *exec.ExitError
	if errors.As(err, &ee) {
		r.ExitCode = ee.ExitCode()
	}
	return r
}

func (p *Pkg) Close() { _ = os.RemoveAll(p.Dir) }

// Tail returns the last n bytes of s for messages.
func Tail(s string, n int) string {
	if len(s) > n {
		return "…" + s[len(s)-n:]
	}
	return strings.TrimSpace(s)
}
