// Package core is the shared plumbing of the verification harness: run
// context, seeded random streams, evidence writer, known-findings matching,
// violation/replay output and exit-code discipline.
package core

import (
	"crypto/sha256"
	"encoding/hex"
	"encoding/json"
	"fmt"
	"hash/fnv"
	"math/rand"
	"os"
	"os/signal"
	"path/filepath"
	"sort"
	"strconv"
	"strings"
	"sync"
	"syscall"
	"time"
)

// Exit codes.
const (
	ExitHeld         = 0
	ExitViolation    = 1
	ExitInconclusive = 2
)

// Finding is one entry of KNOWN_FINDINGS.json.
type Finding struct {
	Property string `json:"property"`
	Key      string `json:"key"`  // canonical witness (exact match)
	What     string `json:"what"` // human description printed on the KNOWN-FINDING line
	Anchor   string `json:"anchor,omitempty"`
}

type knownFile struct {
	Findings []Finding `json:"findings"`
	Fixed    []string  `json:"fixed"`
}

// Violation is one refuting observation.
type Violation struct {
	Key     string // canonical witness; compared with KNOWN_FINDINGS keys
	Summary string
	Replay  any // JSON-serialisable concrete case
}

type Ctx struct {
	ID    string
	Tier  string
	Seed  int64
	Repo  string
	Verif string
	Out   string // where evidence/ and replays/ are written (VERIF_OUT, default Verif)
	Level string // evidence level
	Rule  string
	Start time.Time

	mu           sync.Mutex
	evals        int64
	distinct     map[uint64]struct{}
	distinctN    int64
	samples      []any
	extra        map[string]any
	assumptions  []string
	violations   []Violation
	violKeys     map[string]bool
	knownHit     map[string]Finding
	known        map[string]Finding
	inconclusive []string
	maxSamples   int
	replayPaths  []string

	// ReplayFile, when set, asks the check to re-run exactly the case stored
	// in that file instead of its normal workload.
	ReplayFile string
}

// InfraError aborts a check for a reason that is neither a verdict on the
// property nor a success (harness build failure, missing tool).
type InfraError struct{ Msg string }

// Infra panics with an InfraError; vcheck turns it into exit code 2.
func Infra(format string, a ...any) { panic(InfraError{fmt.Sprintf(format, a...)}) }

// LoadReplay reads the "case" member of a replay file into v.
func (c *Ctx) LoadReplay(v any) {
	b, err := os.ReadFile(c.ReplayFile)
	if err != nil {
		Infra("cannot read replay file: %v", err)
	}
	var w struct {
		Case json.RawMessage `json:"case"`
	}
	if err := json.Unmarshal(b, &w); err != nil {
		Infra("bad replay file: %v", err)
	}
	if err := json.Unmarshal(w.Case, v); err != nil {
		Infra("bad replay case: %v", err)
	}
}

func NewCtx(id, tier string) *Ctx {
	seed := int64(1)
	if s := os.Getenv("VERIF_SEED"); s != "" {
		if v, err := strconv.ParseInt(s, 10, 64); err == nil {
			seed = v
		}
	}
	repo := os.Getenv("VERIF_REPO")
	if repo == "" {
		repo = "/repo"
	}
	verif := os.Getenv("VERIF_DIR")
	if verif == "" {
		verif = "/verif"
	}
	out := os.Getenv("VERIF_OUT")
	if out == "" {
		out = verif
	}
	c := &Ctx{ID: id, Tier: tier, Seed: seed, Repo: repo, Verif: verif, Out: out, Level: "exploration",
		Start: time.Now(), distinct: map[uint64]struct{}{}, extra: map[string]any{},
		violKeys: map[string]bool{}, knownHit: map[string]Finding{}, known: map[string]Finding{}, maxSamples: 6}
	c.loadKnown()
	return c
}

func (c *Ctx) loadKnown() {
	b, err := os.ReadFile(filepath.Join(c.Verif, "KNOWN_FINDINGS.json"))
	if err != nil {
		return
	}
	var kf knownFile
	if err := json.Unmarshal(b, &kf); err != nil {
		fmt.Fprintf(os.Stderr, "warning: KNOWN_FINDINGS.json unreadable: %v\n", err)
		return
	}
	for _, f := range kf.Findings {
		if f.Property == c.ID {
			c.known[f.Key] = f
		}
	}
}

// KnownKeys returns the canonical witnesses listed for this property.
func (c *Ctx) KnownKeys() []string {
	var ks []string
	for k := range c.known {
		ks = append(ks, k)
	}
	sort.Strings(ks)
	return ks
}

func (c *Ctx) IsKnown(key string) bool { _, ok := c.known[key]; return ok }

func (c *Ctx) Quick() bool { return c.Tier != "thorough" }

// Pick returns q in the quick tier and t in the thorough tier.
func (c *Ctx) Pick(q, t int) int {
	if c.Quick() {
		return q
	}
	return t
}

// Rand returns a deterministic stream derived from (seed, property, name).
func (c *Ctx) Rand(name string) *rand.Rand {
	h := fnv.New64a()
	fmt.Fprintf(h, "%d/%s/%s", c.Seed, c.ID, name)
	return rand.New(rand.NewSource(int64(h.Sum64())))
}

func Hash64(parts ...string) uint64 {
	h := fnv.New64a()
	for _, p := range parts {
		h.Write([]byte(p))
		h.Write([]byte{0})
	}
	return h.Sum64()
}

// Eval counts n oracle applications.
func (c *Ctx) Eval(n int) { c.mu.Lock(); c.evals += int64(n); c.mu.Unlock() }

// Nontrivial records one non-trivial case by hash (deduplicated).
func (c *Ctx) Nontrivial(h uint64) { c.mu.Lock(); c.distinct[h] = struct{}{}; c.mu.Unlock() }

// NontrivialStr hashes and records.
func (c *Ctx) NontrivialStr(parts ...string) { c.Nontrivial(Hash64(parts...)) }

// NontrivialN adds n cases that are distinct by construction (an enumeration
// that never repeats) without storing hashes.
func (c *Ctx) NontrivialN(n int) { c.mu.Lock(); c.distinctN += int64(n); c.mu.Unlock() }

// Sample stores up to a few actual cases for the evidence file.
func (c *Ctx) Sample(x any) {
	c.mu.Lock()
	if len(c.samples) < c.maxSamples {
		c.samples = append(c.samples, x)
	}
	c.mu.Unlock()
}

// Set stores an extra coverage key.
func (c *Ctx) Set(k string, v any) { c.mu.Lock(); c.extra[k] = v; c.mu.Unlock() }

// Add increments an integer coverage key.
func (c *Ctx) Add(k string, n int) {
	c.mu.Lock()
	cur, _ := c.extra[k].(int64)
	c.extra[k] = cur + int64(n)
	c.mu.Unlock()
}

func (c *Ctx) Get(k string) int64 {
	c.mu.Lock()
	defer c.mu.Unlock()
	v, _ := c.extra[k].(int64)
	return v
}

func (c *Ctx) Assume(s string) { c.mu.Lock(); c.assumptions = append(c.assumptions, s); c.mu.Unlock() }

// Inconclusive records a case that could not be decided (watchdog, hook not
// reached, unrelated build failure). Never folded into held or violated.
func (c *Ctx) Inconclusive(what string) {
	c.mu.Lock()
	c.inconclusive = append(c.inconclusive, what)
	c.mu.Unlock()
}

// Violate records a refuting observation. key is the canonical witness used
// for known-findings matching; violations with equal keys are reported once.
func (c *Ctx) Violate(key, summary string, replay any) {
	c.mu.Lock()
	defer c.mu.Unlock()
	if f, ok := c.known[key]; ok {
		c.knownHit[key] = f
		return
	}
	if c.violKeys[key] {
		return
	}
	c.violKeys[key] = true
	c.violations = append(c.violations, Violation{Key: key, Summary: summary, Replay: replay})
}

func (c *Ctx) ViolationCount() int { c.mu.Lock(); defer c.mu.Unlock(); return len(c.violations) }

type evidence struct {
	PropertyID  string         `json:"property_id"`
	Tier        string         `json:"tier"`
	Seed        int64          `json:"seed"`
	Level       string         `json:"level"`
	Coverage    map[string]any `json:"coverage"`
	Assumptions []string       `json:"assumptions,omitempty"`
	WallS       float64        `json:"wall_s"`
	Violations  int            `json:"violations"`
}

// Finish writes evidence and replay files, prints verdict lines and returns
// the process exit code.
func (c *Ctx) Finish() int {
	c.mu.Lock()
	defer c.mu.Unlock()
	// replay files
	maxReport := 25
	for i, v := range c.violations {
		if i >= maxReport {
			break
		}
		sum := sha256.Sum256([]byte(v.Key))
		dir := filepath.Join(c.Out, "replays", c.ID)
		_ = os.MkdirAll(dir, 0o755)
		p := filepath.Join(dir, hex.EncodeToString(sum[:6])+".json")
		b, _ := json.MarshalIndent(map[string]any{
			"property": c.ID, "seed": c.Seed, "tier": c.Tier, "key": v.Key, "summary": v.Summary, "case": v.Replay,
		}, "", " ")
		_ = os.WriteFile(p, b, 0o644)
		c.replayPaths = append(c.replayPaths, p)
	}
	cov := map[string]any{}
	for k, v := range c.extra {
		cov[k] = v
	}
	cov["evaluations"] = c.evals
	cov["distinct_nontrivial"] = int64(len(c.distinct)) + c.distinctN
	cov["rule"] = c.Rule
	if len(c.samples) == 0 {
		cov["samples"] = []any{}
	} else {
		cov["samples"] = c.samples
	}
	cov["inconclusive"] = len(c.inconclusive)
	if len(c.inconclusive) > 0 {
		n := len(c.inconclusive)
		if n > 10 {
			n = 10
		}
		cov["inconclusive_examples"] = c.inconclusive[:n]
	}
	var khits []string
	for k := range c.knownHit {
		khits = append(khits, k)
	}
	sort.Strings(khits)
	cov["known_findings_matched"] = len(khits)
	ev := evidence{PropertyID: c.ID, Tier: c.Tier, Seed: c.Seed, Level: c.Level, Coverage: cov,
		Assumptions: c.assumptions, WallS: time.Since(c.Start).Seconds(), Violations: len(c.violations)}
	if ev.Tier != "thorough" {
		ev.Tier = "quick"
	}
	b := marshalNoEscape(ev)
	_ = os.MkdirAll(filepath.Join(c.Out, "evidence"), 0o755)
	if err := os.WriteFile(filepath.Join(c.Out, "evidence", c.ID+".json"), b, 0o644); err != nil {
		fmt.Fprintf(os.Stderr, "cannot write evidence: %v\n", err)
	}
	for _, k := range khits {
		f := c.knownHit[k]
		fmt.Printf("KNOWN-FINDING: property=%s %s\n", c.ID, oneLine(f.What))
	}
	fmt.Printf("SUMMARY property=%s tier=%s seed=%d evaluations=%d distinct_nontrivial=%d violations=%d known=%d inconclusive=%d wall=%.1fs\n",
		c.ID, ev.Tier, c.Seed, c.evals, int64(len(c.distinct))+c.distinctN, len(c.violations), len(khits), len(c.inconclusive), ev.WallS)
	if len(c.violations) > 0 {
		for i, v := range c.violations {
			if i >= maxReport {
				fmt.Printf("... and %d more violations\n", len(c.violations)-maxReport)
				break
			}
			fmt.Printf("VIOLATION property=%s replay=%s\n", c.ID, c.replayPaths[i])
			fmt.Printf("  what: %s\n", oneLine(v.Summary))
		}
		return ExitViolation
	}
	if len(c.inconclusive) > 0 {
		for i, s := range c.inconclusive {
			if i >= 10 {
				break
			}
			fmt.Printf("INCONCLUSIVE property=%s %s\n", c.ID, oneLine(s))
		}
		// Inconclusive cases are reported and counted, never folded into a
		// verdict; the run as a whole is inconclusive only when they are more
		// than 5% of what was evaluated.
		if int64(len(c.inconclusive))*20 > c.evals {
			return ExitInconclusive
		}
	}
	if c.evals == 0 || int64(len(c.distinct))+c.distinctN < 2 {
		fmt.Printf("INCONCLUSIVE property=%s the run observed nothing (evaluations=%d)\n", c.ID, c.evals)
		return ExitInconclusive
	}
	return ExitHeld
}

func marshalNoEscape(v any) []byte {
	var sb strings.Builder
	enc := json.NewEncoder(&sb)
	enc.SetEscapeHTML(false)
	enc.SetIndent("", " ")
	if err := enc.Encode(v); err != nil {
		return []byte("{}")
	}
	return []byte(sb.String())
}

func oneLine(s string) string {
	s = strings.ReplaceAll(s, "\n", "\\n")
	if len(s) > 600 {
		s = s[:600] + "…"
	}
	return s
}

// Q quotes a string for messages.
func Q(s string) string { return strconv.Quote(s) }

var (
	exitMu    sync.Mutex
	exitFuncs []func()
)

// AtExit registers a cleanup function run before the process exits through
// Main (normal end, infrastructure error, SIGINT/SIGTERM).
func AtExit(f func()) { exitMu.Lock(); exitFuncs = append(exitFuncs, f); exitMu.Unlock() }

func runExit() {
	exitMu.Lock()
	fs := exitFuncs
	exitFuncs = nil
	exitMu.Unlock()
	for _, f := range fs {
		f()
	}
}

// Main is the entry point of every per-property binary:
//
//	<bin> [--tier quick|thorough] [--replay file]     run the check
//	<bin> --child <name> args...                      child-process worker (no verdicts)
func Main(id string, run func(*Ctx), children map[string]func(args []string) int) {
	args := os.Args[1:]
	if len(args) >= 2 && args[0] == "--child" {
		fn, ok := children[args[1]]
		if !ok {
			fmt.Fprintf(os.Stderr, "unknown child %q\n", args[1])
			os.Exit(ExitInconclusive)
		}
		os.Exit(fn(args[2:]))
	}
	tier := os.Getenv("VERIF_TIER")
	if tier == "" {
		tier = "quick"
	}
	replay := ""
	for i := 0; i < len(args); i++ {
		switch args[i] {
		case "--tier":
			if i+1 < len(args) {
				tier = args[i+1]
				i++
			}
		case "--replay":
			if i+1 < len(args) {
				replay = args[i+1]
				i++
			}
		}
	}
	c := NewCtx(id, tier)
	c.ReplayFile = replay
	sig := make(chan os.Signal, 1)
	signal.Notify(sig, syscall.SIGINT, syscall.SIGTERM)
	go func() {
		<-sig
		runExit()
		fmt.Printf("INFRASTRUCTURE property=%s interrupted\n", id)
		os.Exit(ExitInconclusive)
	}()
	func() {
		defer func() {
			if r := recover(); r != nil {
				runExit()
				if ie, ok := r.(InfraError); ok {
					fmt.Printf("INFRASTRUCTURE property=%s %s\n", id, ie.Msg)
					os.Exit(ExitInconclusive)
				}
				panic(r)
			}
		}()
		run(c)
	}()
	runExit()
	os.Exit(c.Finish())
}
