package main

import (
	"verif/checks/c09"
	"verif/core"
)

func main() { core.Main("C09", c09.Run, nil) }
