package main

import (
	"verif/checks/c16"
	"verif/core"
)

func main() { core.Main("C16", c16.Run, nil) }
