package main

import (
	"verif/checks/c17"
	"verif/core"
)

func main() { core.Main("C17", c17.Run, nil) }
