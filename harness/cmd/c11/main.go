package main

import (
	"verif/checks/c11"
	"verif/core"
)

func main() { core.Main("C11", c11.Run, nil) }
