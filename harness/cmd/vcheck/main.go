// vcheck dispatches one property check: vcheck <Cxx> --tier quick|thorough [--replay file]
package main

import (
	"flag"
	"fmt"
	"os"

	"verif/checks"
	"verif/core"
	"verif/corpus"
)

func main() {
	if len(os.Args) < 2 {
		fmt.Fprintln(os.Stderr, "usage: vcheck <id> [--tier quick|thorough] [--replay file] | vcheck --child <name> ...")
		os.Exit(2)
	}
	if os.Args[1] == "--child" {
		// child-process entry points (batch workers); never produce verdicts themselves.
		if len(os.Args) < 3 {
			os.Exit(2)
		}
		fn, ok := checks.Children[os.Args[2]]
		if !ok {
			fmt.Fprintf(os.Stderr, "unknown child %q\n", os.Args[2])
			os.Exit(2)
		}
		os.Exit(fn(os.Args[3:]))
	}
	id := os.Args[1]
	fs := flag.NewFlagSet("vcheck", flag.ExitOnError)
	tier := fs.String("tier", envOr("VERIF_TIER", "quick"), "quick|thorough")
	replay := fs.String("replay", "", "replay file")
	_ = fs.Parse(os.Args[2:])
	fn, ok := checks.Registry[id]
	if !ok {
		fmt.Fprintf(os.Stderr, "unknown property %q\n", id)
		os.Exit(2)
	}
	c := core.NewCtx(id, *tier)
	c.ReplayFile = *replay
	func() {
		defer func() {
			if r := recover(); r != nil {
				corpus.Cleanup()
				if ie, ok := r.(core.InfraError); ok {
					fmt.Printf("INFRASTRUCTURE property=%s %s\n", id, ie.Msg)
					os.Exit(core.ExitInconclusive)
				}
				panic(r)
			}
		}()
		fn(c)
	}()
	corpus.Cleanup()
	os.Exit(c.Finish())
}

func envOr(k, d string) string {
	if v := os.Getenv(k); v != "" {
		return v
	}
	return d
}
