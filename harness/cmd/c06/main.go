package main

import (
	"verif/checks/c06"
	"verif/core"
)

func main() { core.Main("C06", c06.Run, c06.Children) }
