package main

import (
	"verif/checks/c12"
	"verif/core"
)

func main() { core.Main("C12", c12.Run, nil) }
