// vjs is the V8 evaluation worker: the only binary of the harness that links
// rogchap.com/v8go (cgo, prebuilt libv8). It reads JSONL jobs {"id":n,"script":s}
// on stdin and writes JSONL {"id":n,"result":r} or {"id":n,"error":e} on stdout.
// Every job runs in a fresh V8 context (no state is shared between jobs); the
// result is the string conversion of the script's completion value. A per-job
// watchdog terminates runaway scripts (reported as error "timeout", which the
// caller treats as inconclusive/violating according to its own rules).
package main

import (
	"bufio"
	"encoding/json"
	"os"
	"time"

	v8 "rogchap.com/v8go"
)

type job struct {
	ID     int    `json:"id"`
	Script string `json:"script"`
}

type reply struct {
	ID     int     `json:"id"`
	Result *string `json:"result,omitempty"`
	Error  *string `json:"error,omitempty"`
}

func main() {
	in := bufio.NewReaderSize(os.Stdin, 1<<20)
	out := bufio.NewWriterSize(os.Stdout, 1<<20)
	defer out.Flush()
	enc := json.NewEncoder(out)
	enc.SetEscapeHTML(false)
	iso := v8.NewIsolate()
	n := 0
	for {
		line, err := in.ReadBytes('\n')
		if len(line) > 1 {
			var j job
			if e := json.Unmarshal(line, &j); e != nil {
				msg := "bad job: " + e.Error()
				_ = enc.Encode(reply{ID: -1, Error: &msg})
			} else {
				// recycle the isolate now and then so heap growth stays bounded
				if n++; n%20000 == 0 {
					iso.Dispose()
					iso = v8.NewIsolate()
				}
				_ = enc.Encode(run(iso, j))
			}
		}
		if err != nil {
			return
		}
	}
}

func run(iso *v8.Isolate, j job) reply {
	ctx := v8.NewContext(iso)
	defer ctx.Close()
	done := make(chan struct{})
	timedOut := false
	go func() {
		select {
		case <-done:
		case <-time.After(5 * time.Second):
			timedOut = true
			iso.TerminateExecution()
			<-done
		}
	}()
	val, err := ctx.RunScript(j.Script, "case.js")
	close(done)
	if timedOut {
		msg := "timeout"
		return reply{ID: j.ID, Error: &msg}
	}
	if err != nil {
		msg := err.Error()
		return reply{ID: j.ID, Error: &msg}
	}
	s := val.String()
	return reply{ID: j.ID, Result: &s}
}
