// vjs is the V8 evaluation worker: the only binary of the harness that links
// rogchap.com/v8go (cgo, prebuilt libv8). It reads JSONL jobs {"id":n,"script":s}
// on stdin and writes JSONL {"id":n,"result":r} or {"id":n,"error":e} on stdout.
// Every job runs in a fresh V8 context (no state is shared between jobs); the
// result is the string conversion of the script's completion value. A per-job
// watchdog (VJS_TIMEOUT_MS, default 20 s wall) terminates runaway scripts; they
// are reported as error "timeout", which the caller retries and otherwise
// treats as inconclusive.
package main

import (
	"bufio"
	"encoding/json"
	"os"
	"strconv"
	"sync/atomic"
	"time"

	v8 "rogchap.com/v8go"
)

type job struct {
	ID     int    `json:"id"`
	Script string `json:"script"`
}

type reply struct {
	ID     int     `json:"id"`
	Result *string `json:"result,omitempty"`
	Error  *string `json:"error,omitempty"`
}

func main() {
	in := bufio.NewReaderSize(os.Stdin, 1<<20)
	out := bufio.NewWriterSize(os.Stdout, 1<<20)
	defer out.Flush()
	enc := json.NewEncoder(out)
	enc.SetEscapeHTML(false)
	iso := v8.NewIsolate()
	n := 0
	for {
		line, err := in.ReadBytes('\n')
		if len(line) > 1 {
			var j job
			if e := json.Unmarshal(line, &j); e != nil {
				msg := "bad job: " + e.Error()
				_ = enc.Encode(reply{ID: -1, Error: &msg})
			} else {
				// recycle the isolate now and then so heap growth stays bounded
				if n++; n%20000 == 0 {
					iso.Dispose()
					iso = v8.NewIsolate()
				}
				_ = enc.Encode(run(iso, j))
			}
		}
		if err != nil {
			return
		}
	}
}

var timeout = 20 * time.Second

func init() {
	if ms, err := strconv.Atoi(os.Getenv("VJS_TIMEOUT_MS")); err == nil && ms > 0 {
		timeout = time.Duration(ms) * time.Millisecond
	}
}

func run(iso *v8.Isolate, j job) reply {
	ctx := v8.NewContext(iso)
	defer ctx.Close()
	done, stopped := make(chan struct{}), make(chan struct{})
	var timedOut atomic.Bool
	go func() {
		defer close(stopped)
		t := time.NewTimer(timeout)
		defer t.Stop()
		select {
		case <-done:
		case <-t.C:
			timedOut.Store(true)
			iso.TerminateExecution()
		}
	}()
	val, err := ctx.RunScript(j.Script, "case.js")
	close(done)
	<-stopped // the watchdog can no longer terminate a later job
	if timedOut.Load() {
		msg := "timeout"
		return reply{ID: j.ID, Error: &msg}
	}
	if err != nil {
		msg := err.Error()
		return reply{ID: j.ID, Error: &msg}
	}
	s := val.String()
	return reply{ID: j.ID, Result: &s}
}
