package main

import (
	"verif/checks/c18"
	"verif/core"
)

func main() { core.Main("C18", c18.Run, c18.Children) }
