package main

import (
	"verif/checks/c01"
	"verif/core"
)

func main() { core.Main("C01", c01.Run, nil) }
