package main

import (
	"verif/checks/c02"
	"verif/core"
)

func main() { core.Main("C02", c02.Run, nil) }
