package main

import (
	"verif/checks/c13"
	"verif/core"
)

func main() { core.Main("C13", c13.Run, nil) }
