package main

import (
	"verif/checks/c20"
	"verif/core"
)

func main() { core.Main("C20", c20.Run, nil) }
