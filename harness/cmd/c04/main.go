package main

import (
	"verif/checks/c04"
	"verif/core"
)

func main() { core.Main("C04", c04.Run, c04.Children) }
