package main

import (
	"verif/checks/c07"
	"verif/core"
)

func main() { core.Main("C07", c07.Run, nil) }
