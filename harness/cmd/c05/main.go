package main

import (
	"verif/checks/c05"
	"verif/core"
)

func main() { core.Main("C05", c05.Run, c05.Children) }
