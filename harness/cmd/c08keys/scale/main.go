package main

import (
	"fmt"
	"os"
	"runtime/pprof"
	"time"

	"verif/gen/tsrc"
)

func main() {
	cells := tsrc.AllCells()
	f, _ := os.Create("/tmp/cpu.prof")
	pprof.StartCPUProfile(f)
	t0 := time.Now()
	for _, c := range cells[:1000] {
		tsrc.Gen(c.Src)
	}
	fmt.Println("gen", time.Since(t0))
	t0 = time.Now()
	for _, c := range cells[:1000] {
		tsrc.Fmt(c.Src)
	}
	fmt.Println("fmt", time.Since(t0))
	pprof.StopCPUProfile()
}
