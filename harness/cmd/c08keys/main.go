// c08keys is the development tool of C08/C09: it enumerates the adjacency
// matrix and the attribute/expression/file cells (optionally also random
// compositions and mutants, to verify that they reduce INTO the enumerated
// keys), reduces every failing program, groups the canonical witnesses by
// root-cause family and writes the proposed known-findings files. The checks
// themselves never write known findings.
//
//	c08keys [-random n] [-seed s] [-out dir] [-v]
package main

import (
	"encoding/json"
	"flag"
	"fmt"
	"math/rand"
	"os"
	"path/filepath"
	"sort"
	"strconv"
	"strings"
	"time"

	"verif/checks/c08"
	"verif/checks/c09"
	"verif/core"
	"verif/gen/tsrc"
)

func main() {
	nrand := flag.Int("random", 0, "additionally reduce n random compositions and n mutants (verification that they reduce into cells)")
	seed := flag.Int64("seed", 1, "seed for -random")
	out := flag.String("out", "", "directory for C08-known-findings.json / C09-known-findings.json (empty: do not write)")
	verbose := flag.Bool("v", false, "print every key")
	merge := flag.String("merge-replays", "", "directory with replays/C08 and replays/C09 of check runs: add their witnesses (harvested from seeded runs) to the findings written with -out")
	dump := flag.String("dump", "", "print the program with this origin (e.g. random:402) and exit")
	bodyFlag := flag.String("body", "", "only show what both oracles say about this template body (Go-quoted or raw) and its reduction")
	flag.Parse()
	if *bodyFlag != "" {
		b := *bodyFlag
		if u, err := strconv.Unquote(b); err == nil {
			b = u
		}
		src := tsrc.BareFileOf(b)
		if strings.HasPrefix(b, "package ") {
			src = b
		}
		if strings.HasPrefix(b, "@/") {
			fb, _ := os.ReadFile(b[1:])
			src = string(fb)
		}
		for _, o := range []tsrc.Oracle{c08.Check, c09.Check} {
			out := o(src)
			fmt.Printf("accepted=%v changed=%v class=%q\n  %s\n", out.Accepted, out.Changed, out.Class, out.Detail)
			if out.Class != "" {
				red := tsrc.Reduce(src, out.Class, func(s string) string {
					x := o(s)
					if !x.Accepted {
						return ""
					}
					return x.Class
				}, nil)
				fmt.Printf("  reduced (%d tests, lift=%v): %s\n", red.Tests, red.Lift, red.Key)
			}
		}
		F, _ := tsrc.Fmt(src)
		fmt.Printf("--- fmt:\n%s", F)
		return
	}

	fdir, _ := os.MkdirTemp("", "verif-c08keys-")
	defer os.RemoveAll(fdir)
	tsrc.FmtFileDir(fdir, "/repo")
	var progs []tsrc.Prog
	for _, cl := range tsrc.AllCells() {
		o := "matrix:"
		if strings.HasPrefix(cl.Name, "cell=") {
			o = "cell:"
		}
		progs = append(progs, tsrc.Prog{Origin: o + cl.Name, Src: cl.Src})
	}
	ncells := len(progs)
	if *nrand > 0 {
		r := rand.New(rand.NewSource(*seed))
		var bases []string
		for _, p := range append(tsrc.RepoFiles("/repo"), tsrc.FormatTestData("/repo")...) {
			if len(p.Src) < 3000 {
				bases = append(bases, p.Src)
			}
		}
		for _, cl := range tsrc.CellList() {
			bases = append(bases, cl.Src)
		}
		for i := 0; i < *nrand; i++ {
			progs = append(progs, tsrc.Prog{Origin: fmt.Sprintf("random:%d", i), Src: tsrc.Random(r)})
			progs = append(progs, tsrc.Prog{Origin: fmt.Sprintf("mutant:%d", i), Src: tsrc.Mutate(r, bases[r.Intn(len(bases))])})
		}
	}
	if *dump != "" {
		for _, p := range progs {
			if p.Origin == *dump {
				fmt.Printf("%s\n", p.Src)
				os.WriteFile("/tmp/dump.templ", []byte(p.Src), 0o644)
			}
		}
		return
	}
	for _, prop := range []struct {
		id     string
		oracle tsrc.Oracle
		what   string
		weaker func(from, to string) bool
		file   tsrc.Oracle
	}{{"C08", c08.Check, "formatting changes the program", c08.Weaker, c08.CheckFile}, {"C09", c09.Check, "formatting is not idempotent", c09.Weaker, c09.CheckFile}} {
		t0 := time.Now()
		os.Setenv("VERIF_DIR", "/nonexistent")
		c := core.NewCtx(prop.id, "quick")
		r := tsrc.NewRunner(c, prop.oracle, prop.what)
		r.Weaker = prop.weaker
		r.All(progs)
		// the named-file path (imports.Process) over the import cells
		rf := tsrc.NewRunner(c, prop.file, "templ fmt <file>: "+prop.what)
		rf.Weaker, rf.Mode, rf.KeyPrefix, rf.NoRename = prop.weaker, "fmtfile", "fmtfile:", true
		var iprogs []tsrc.Prog
		for _, cl := range tsrc.ImportCells() {
			iprogs = append(iprogs, tsrc.Prog{Origin: "cell:" + cl.Name, Src: cl.Src})
		}
		rf.All(iprogs)
		for k, ki := range rf.Found {
			r.Found[k] = ki
		}
		var keys []string
		for k := range r.Found {
			keys = append(keys, k)
		}
		sort.Strings(keys)
		fams := map[string][]*tsrc.KeyInfo{}
		var newFromRandom []string
		for _, k := range keys {
			ki := r.Found[k]
			f := family(prop.id, ki)
			fams[f] = append(fams[f], ki)
			if ki.ByOrigin["matrix"]+ki.ByOrigin["cell"] == 0 {
				newFromRandom = append(newFromRandom, k)
			}
		}
		fmt.Printf("== %s: %d programs (%d cells), %d distinct keys, %d families, %.1fs\n", prop.id, len(progs), ncells, len(keys), len(fams), time.Since(t0).Seconds())
		var fnames []string
		for f := range fams {
			fnames = append(fnames, f)
		}
		sort.Strings(fnames)
		var findings []core.Finding
		for _, f := range fnames {
			hits := 0
			for _, ki := range fams[f] {
				hits += ki.Hits
			}
			fmt.Printf("  family %-28s keys=%-4d hits=%d   e.g. %s\n", f, len(fams[f]), hits, fams[f][0].Key)
			for _, ki := range fams[f] {
				if *verbose {
					fmt.Printf("      %-60s hits=%d %v\n", ki.Key, ki.Hits, ki.ByOrigin)
				}
				if ki.ByOrigin["matrix"]+ki.ByOrigin["cell"] > 0 {
					findings = append(findings, core.Finding{Property: prop.id, Key: ki.Key,
						What:   fmt.Sprintf("[%s] %s: %s", f, strings.TrimSpace(body(ki.Src)), ki.Detail),
						Anchor: anchor(f)})
				}
			}
		}
		if len(newFromRandom) > 0 {
			fmt.Printf("  !! %d keys reached only from random/mutant programs (not in the enumeration):\n", len(newFromRandom))
			for _, k := range newFromRandom {
				fmt.Printf("      %s   (%v) e.g. from %v\n", k, r.Found[k].ByOrigin, r.Found[k].Origins)
			}
		}
		have := map[string]bool{}
		for _, f := range findings {
			have[f.Key] = true
		}
		if *out != "" { // harvested entries of an earlier run are kept
			if b, err := os.ReadFile(filepath.Join(*out, prop.id+"-known-findings.json")); err == nil {
				var old struct{ Findings []core.Finding }
				if json.Unmarshal(b, &old) == nil {
					for _, f := range old.Findings {
						if strings.Contains(f.What, "; harvested from ") && !have[f.Key] {
							have[f.Key] = true
							findings = append(findings, f)
						}
					}
				}
			}
		}
		if *merge != "" {
			files, _ := filepath.Glob(filepath.Join(*merge, "replays", prop.id, "*.json"))
			sort.Strings(files)
			for _, fn := range files {
				b, err := os.ReadFile(fn)
				if err != nil {
					continue
				}
				var rp struct {
					Key, Summary string
					Seed         int64
					Tier         string
					Case         tsrc.Case
				}
				if json.Unmarshal(b, &rp) != nil || rp.Key == "" || have[rp.Key] {
					continue
				}
				have[rp.Key] = true
				o := prop.oracle(rp.Case.Src)
				if rp.Case.Mode == "fmtfile" {
					o = prop.file(rp.Case.Src)
				}
				ki := &tsrc.KeyInfo{Key: rp.Key, Class: o.Class, Detail: o.Detail, Src: rp.Case.Src}
				f := family(prop.id, ki)
				findings = append(findings, core.Finding{Property: prop.id, Key: rp.Key,
					What:   fmt.Sprintf("[%s; harvested from %s seed %d %s] %s: %s", f, rp.Tier, rp.Seed, rp.Case.Origin, strings.TrimSpace(body(rp.Case.Src)), o.Detail),
					Anchor: anchor(f)})
				fmt.Printf("  harvested %s (%s)\n", rp.Key, f)
			}
		}
		if *out != "" {
			var sb strings.Builder
			enc := json.NewEncoder(&sb)
			enc.SetEscapeHTML(false)
			enc.SetIndent("", " ")
			_ = enc.Encode(map[string]any{"findings": findings})
			p := filepath.Join(*out, prop.id+"-known-findings.json")
			if err := os.WriteFile(p, []byte(sb.String()), 0o644); err != nil {
				fmt.Println("write:", err)
			} else {
				fmt.Printf("  wrote %d findings to %s\n", len(findings), p)
			}
		}
	}
}

func body(src string) string {
	if b, ok := tsrc.BodyOf(src); ok {
		return b
	}
	return src
}
