package main

import (
	"strings"

	"verif/gen/tsrc"
)

// family groups canonical witnesses by root cause (development aid: the
// grouping is descriptive, the checks match on keys only).
func family(prop string, ki *tsrc.KeyInfo) string {
	k := ki.Key
	has := func(subs ...string) bool {
		for _, s := range subs {
			if !strings.Contains(k, s) {
				return false
			}
		}
		return true
	}
	switch {
	case strings.HasPrefix(k, "fmtfile:") && strings.Count(k, "fmt\\\"") >= 2 && !has("strings"):
		return "imports-duplicate-import"
	case strings.HasPrefix(k, "fmtfile:"):
		return "imports-delete-while-ranging"
	case has("title=", "&") && !has("title={"), has(`title='`):
		return "attr-reescape"
	case has("templ t(") && has("//") || has("templ t(") && has("/*") || has("templ /*"):
		return "comment-in-signature"
	case strings.HasPrefix(k, "file=") && has("script "):
		return "script-params-reformatted"
	case strings.HasPrefix(k, "file=") && has("css "):
		return "trailing-comment-growth"
	case has("/**/var b int") || has("file-go-comment-before"):
		return "gofmt-comment-before-declaration"
	case strings.HasPrefix(k, "file=") || has("file-header"), has("file-no-package"):
		return "other-file-level"
	case has("//") && (ki.Class == "reject:parse" || ki.Class == "error"):
		return "line-comment-swallows-closer"
	case has("b=legacycall") && has("a=text"):
		return "legacy-call-after-text"
	case has(" if b {") && strings.HasPrefix(k, "src=\"<"):
		return "single-line-conditional-attribute"
	case prop == "C09" && strings.HasPrefix(k, "ctx=div") || prop == "C09" && strings.HasPrefix(k, "ctx=span"):
		return "single-line-element-non-trailer-child"
	case has("/* c */ s }"), has("/* c */ b }"):
		return "leading-comment-in-expression"
	case has("s...") || has("/* c */ }") || has("expr-comment") || has("// c\\n"):
		return "trailing-comment-growth"
	case has("{! c( ) }") || has("legacycall-"):
		return "legacy-call-not-gofmted"
	case has("gocode-two-statements") || has("{{ v := 1; u := 2 }}"):
		return "gocode-two-statements"
	case has("={ ") && has(",") && has("\\n"):
		return "multiline-attr-expression"
	case has("s... "):
		return "trailing-comment-growth"
	case prop == "C08" && (has("ctx=if") || has("ctx=call") || has("ctx=for") || has("ctx=case")) && has("sep=none"):
		return "F2-newline-after-non-trailer-in-body"
	case prop == "C08" && (has("b=if") || has("b=for") || has("b=switch") || has("b=spanml") || has("b=divml")):
		return "F1-inline-item-then-block"
	case prop == "C08" && has("a=iftext"):
		return "F3-body-end-text-then-inline"
	}
	return "other:" + ki.Class
}

func anchor(f string) string {
	switch f {
	case "imports-delete-while-ranging":
		return "cmd/templ/imports/process.go: Process (astutil.DeleteNamedImport shrinks firstGoNodeInTemplate.Imports while the loop ranges over it: the import after each deleted one is skipped)"
	case "imports-duplicate-import":
		return "cmd/templ/imports/process.go: Process (the single-import rewrite counts import specs before duplicates are merged)"
	case "attr-reescape":
		return "parser/v2/types.go: ConstantAttribute.String (value written back unescaped; parser/v2/elementparser.go: constantAttributeParser unescapes it)"
	case "comment-in-signature":
		return "parser/v2/types.go: formatFunctionArguments / HTMLTemplate.Write"
	case "script-params-reformatted":
		return "parser/v2/types.go: ScriptTemplate.Write (formatFunctionArguments) vs generator/generator.go: writeScript (raw parameter text)"
	case "gofmt-comment-before-declaration":
		return "parser/v2/types.go: TemplateFileGoExpression.Write (go/format.Source itself needs two passes for `/* c */ var x` after another declaration)"
	case "line-comment-swallows-closer":
		return "parser/v2/types.go: GoCode.Write, ExpressionAttribute.Write (closing brace written on the line of a // comment)"
	case "legacy-call-after-text":
		return "parser/v2/types.go: CallTemplateExpression.Write (rewrites {! x } to @x without separating it from preceding text)"
	case "single-line-conditional-attribute":
		return "parser/v2/types.go: ConditionalAttribute.Write / Element.Write (IndentAttrs decided from the source layout, conditional attributes always written multi-line)"
	case "single-line-element-non-trailer-child":
		return "parser/v2/types.go: writeNodes (trailing defaults to SpaceVertical for nodes that are not WhitespaceTrailers, also inside single-line elements)"
	case "leading-comment-in-expression":
		return "parser/v2/types.go: ExpressionAttribute.formatExpression (gofmt breaks the line after a leading comment)"
	case "trailing-comment-growth":
		return "parser/v2/goexpression/parse.go: SliceArgs (expression text captured with trailing comment and padding) / parser/v2/types.go: StringExpression.Write"
	case "legacy-call-not-gofmted":
		return "parser/v2/types.go: CallTemplateExpression.Write (expression not gofmt'ed, TemplElementExpression.Write gofmt's it on the next pass)"
	case "gocode-two-statements":
		return "parser/v2/types.go: GoCode.Write (gofmt splits the statements, Multiline flag comes from the source)"
	case "multiline-attr-expression":
		return "parser/v2/types.go: ExpressionAttribute.formatExpression"
	case "F2-newline-after-non-trailer-in-body":
		return "parser/v2/types.go: writeNodes (newline after every node without trailing-space information) + generator/generator.go: writeNodes (whitespace nodes rendered in control-flow / call bodies)"
	case "F1-inline-item-then-block":
		return "parser/v2/types.go: writeNodes/nextNodeIsBlock (statement or multi-line element moved to a new line) + generator/generator.go: writeNode (trailing space emitted before inline next node)"
	case "F3-body-end-text-then-inline":
		return "parser/v2/types.go: writeNodes (newline after the last node of a body) + generator/generator.go: writeIfExpression (next node passed into the body)"
	}
	return "parser/v2/types.go"
}
