package main

import "verif/gen/tsrc"

func family(prop string, ki *tsrc.KeyInfo) string { return ki.Class }

func anchor(f string) string { return "parser/v2/types.go" }
