package main

import (
	"verif/checks/c10"
	"verif/core"
)

func main() { core.Main("C10", c10.Run, nil) }
