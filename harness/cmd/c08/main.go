package main

import (
	"verif/checks/c08"
	"verif/core"
)

func main() { core.Main("C08", c08.Run, nil) }
