package main

import (
	"verif/checks/c14"
	"verif/core"
)

func main() { core.Main("C14", c14.Run, nil) }
