package main

import (
	"verif/checks/c03"
	"verif/core"
)

func main() { core.Main("C03", c03.Run, nil) }
