package main

import (
	"verif/checks/c15"
	"verif/core"
)

func main() { core.Main("C15", c15.Run, nil) }
