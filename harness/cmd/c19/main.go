package main

import (
	"verif/checks/c19"
	"verif/core"
)

func main() { core.Main("C19", c19.Run, c19.Children) }
